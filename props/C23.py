"""C23 — mitmproxy never proxies a connection back to its own listening sockets.

The real `Proxyserver.server_connect` is executed against a stubbed server list (objects exposing
`listen_addrs` and a real `ProxyMode` as `.mode`).  Ports are symbolic ints (only compared), the destination
address is either
  * a `SymHost`: the canonical text of an IPv4/IPv6 address whose 32-/128-bit integer value is a symbolic
    bit-vector (equality with a literal string is decided by z3, so one path covers every address the code
    does not distinguish) — obligations `dest-v4-all` / `dest-v6-all`, or
  * a solver-chosen textual spelling (localhost in several cases / with trailing dot, non-canonical IPv6
    spellings, IPv4-mapped loopback, the wildcard addresses, ...) — obligation `dest-spellings`.
Oracle (written from the property sentence, integer arithmetic only): the connection MUST be refused when
ports are equal, the listening mode serves the connection's transport, and the destination is the listen
address itself, or denotes loopback while the listener is bound to loopback / all interfaces, or is the
wildcard address.  Refusing more than that is not a violation (only reach label `allowed` guards vacuity).
"""
import ipaddress

from mitmproxy import connection
from mitmproxy.addons import proxyserver
from mitmproxy.proxy import mode_specs, server_hooks

from vf import symx
from vf.ob import Symx

LEVEL = "model_checking"
ASSUMPTIONS = [
    "server list stubbed: objects with .listen_addrs (as getsockname() reports them: listen_host '' yields the two "
    "sockets 0.0.0.0 and ::) and .mode = a real ProxyMode (its real transport_protocol tcp/udp/both is used)",
    "SymHost stands for the canonical text (str(ipaddress.ip_address(n))) of an address with symbolic integer n; "
    "== with a str is n == int(that address) iff the str is canonical, else False; lower()/rstrip('.') are identities "
    "on canonical IP text; any other str operation raises Unsupported (path inconclusive, never silently concrete)",
    "ipaddress.ip_address(SymHost) returns an IPv4Address/IPv6Address whose _ip is the symbolic integer (text parsing "
    "is exercised concretely by 'dest-spellings'); lru_cache-free predicates only",
    "'denotes loopback' = 127.0.0.0/8, ::1, IPv4-mapped 127.0.0.0/8, the name localhost in any case with optional "
    "trailing dot; 'wildcard' = 0.0.0.0 and ::",
]
OUTSIDE = [
    "names that resolve to a loopback/own address through DNS or /etc/hosts (resolution is the OS's)",
    "inet_aton shorthands accepted by getaddrinfo ('127.1', '2130706433', '0x7f.1'), zone-scoped IPv6 literals",
    "other addresses of the local host when listening on all interfaces (not enumerable without the OS)",
]
ENCODED = ["mitmproxy.addons.proxyserver:Proxyserver.server_connect"]

_real_ip_address = ipaddress.ip_address
# the per-query wall-clock limit is a fail-safe, not part of the claim: on a heavily shared machine trivial bit-vector
# queries were observed to hit the 20 s default ("solver unknown: timeout" => inconclusive); allow them more time.
symx.QUERY_TIMEOUT_MS = max(symx.QUERY_TIMEOUT_MS, 120000)


class SymHost:
    """canonical text of the IPv`fam` address with (symbolic) integer value n"""

    def __init__(self, fam, n):
        self.fam, self.n = fam, n

    def _eq(self, o):
        if type(o) is SymHost:
            return (self.n == o.n) if self.fam == o.fam else False
        if type(o) is str:
            try:
                a = _real_ip_address(o)
            except ValueError:
                return False
            if a.version != self.fam or str(a) != o:
                return False  # not the canonical spelling of any address of this family
            return self.n == int(a)
        return NotImplemented

    def __eq__(self, o):
        return self._eq(o)

    def __ne__(self, o):
        r = self._eq(o)
        return r if r is NotImplemented else symx.lnot(r)

    def __hash__(self):
        raise symx.Unsupported("hash of a symbolic host")

    # canonical IP text is invariant under these
    def lower(self):
        return self

    casefold = lower

    def _strip(self, chars=None):
        if chars is None or all(c in ". \t\r\n[]" for c in chars):
            return self
        raise symx.Unsupported(f"strip({chars!r}) on a symbolic host")

    rstrip = lstrip = strip = _strip

    def removesuffix(self, s):
        if s in (".", ""):
            return self
        raise symx.Unsupported("removesuffix on a symbolic host")

    def endswith(self, s, *a):
        if s == ".":
            return False
        raise symx.Unsupported("endswith on a symbolic host")

    def __str__(self):
        return "<symbolic-address>"

    __repr__ = __str__

    def __format__(self, spec):
        return "<symbolic-address>"

    def __getattr__(self, name):
        raise symx.Unsupported(f"str operation {name!r} on a symbolic host")


def _mk_addr(fam, n):
    if fam == 4:
        a = ipaddress.IPv4Address.__new__(ipaddress.IPv4Address)
        a._ip = n
    else:
        a = ipaddress.IPv6Address.__new__(ipaddress.IPv6Address)
        a._ip = n
        a._scope_id = None
    return a


def _ip_address_shim(x):
    if type(x) is SymHost:
        return _mk_addr(x.fam, x.n)
    return _real_ip_address(x)


class _Srv:
    def __init__(self, mode, addrs):
        self.mode, self.listen_addrs = mode, tuple(addrs)


_MODES = {"tcp": "regular", "udp": "reverse:http3://upstream.example:443", "both": "reverse:https://upstream.example:443"}


def _run(servers, dest_host, dest_port, transport):
    """real Proxyserver.server_connect -> refused?"""
    ps = proxyserver.Proxyserver()
    ps.servers = servers
    srv = connection.Server(address=(dest_host, dest_port), transport_protocol=transport)
    cl = connection.Client(peername=("192.0.2.99", 40000), sockname=("192.0.2.1", 8080))
    saved = ipaddress.ip_address
    ipaddress.ip_address = _ip_address_shim
    symx.install_isinstance(ipaddress)
    try:
        ps.server_connect(server_hooks.ServerConnectionHookData(srv, cl))
    finally:
        ipaddress.ip_address = saved
        symx.uninstall_isinstance(ipaddress)
    return srv.error is not None


def _mode(transport):
    m = mode_specs.ProxyMode.parse(_MODES[transport])
    assert m.transport_protocol == transport, (m, m.transport_protocol)
    return m


# -- reference classification of addresses by integer value (independent of mitmproxy) ----------------------

def _v4_loop(n):
    return (n >> 24) == 127


def _v6_mapped(n):
    return (n >> 32) == 0xFFFF


def _v6_loop(n):
    return (n == 1) | (_v6_mapped(n) & _v4_loop(n & 0xFFFFFFFF))


def _loop(fam, n):
    return _v4_loop(n) if fam == 4 else _v6_loop(n)


def _wild(fam, n):
    return n == 0


#                    name            listen_addrs builder(lport, sym)                       info list [(fam, n)]
LISTEN = ["127.0.0.1", "::1", "0.0.0.0", "::", "", "specific"]


def _listen(X, which, lport, fam_hint):
    """-> (listen_addrs as getsockname() would report them, [(fam, int value, host object)])"""
    if which == "":
        hosts = [(4, 0, "0.0.0.0"), (6, 0, "::")]
    elif which == "specific":
        bits = 32 if fam_hint == 4 else 128
        m = X.bv("listen_addr", bits)
        if X.symbolic:
            hosts = [(fam_hint, m, SymHost(fam_hint, m))]
        else:
            hosts = [(fam_hint, m, str(_mk_addr(fam_hint, m)))]
    else:
        a = _real_ip_address(which)
        hosts = [(a.version, int(a), which)]
    addrs = [(h, lport) if f == 4 else (h, lport, 0, 0) for f, _, h in hosts]
    return addrs, hosts


def _must_refuse(dest, hosts, ports_equal, transport_served):
    """dest = (fam, n) | ('name', is_localhost_name, text); hosts = [(fam, n, hostobj)]"""
    hit = False
    for lf, ln, lh in hosts:
        l_loop_or_any = _loop(lf, ln) | _wild(lf, ln)
        if dest[0] == "name":
            same = False
            d_loop, d_wild = dest[1], False
        else:
            df, dn = dest
            same = (dn == ln) if df == lf else False
            d_loop, d_wild = _loop(df, dn), _wild(df, dn)
        hit = hit | same | (l_loop_or_any & d_loop) | d_wild
    return ports_equal & hit if transport_served else False


def _servers(X, which, lport, fam_hint, mode_transport):
    addrs, hosts = _listen(X, which, lport, fam_hint)
    main = _Srv(_mode(mode_transport), addrs)
    # a decoy instance on another port in front or behind: every server and every address must be looked at
    decoy_port = X.int("decoy_port", 1, 65535)
    X.assume(decoy_port != lport)
    decoy = _Srv(_mode("tcp"), [("127.0.0.1", decoy_port)])
    # ... or a twin instance on the SAME addresses and port that serves the other transport (a TCP mode and a UDP mode may share a
    # port number): the connection is a loop if ANY instance serves its transport there
    twin_ok = mode_transport != "both"
    order = X.choose("decoy", ["none", "before", "after"] + (["twin-before", "twin-after"] if twin_ok else []))
    if order.startswith("twin"):
        twin = _Srv(_mode("udp" if mode_transport == "tcp" else "tcp"), list(addrs))
        servers = [twin, main] if order == "twin-before" else [main, twin]
        X.reach("twin-other-transport")
        _servers.twin = True
    else:
        servers = [main] if order == "none" else ([decoy, main] if order == "before" else [main, decoy])
        _servers.twin = False
    return servers, hosts, decoy_port


def _common(X):
    lport = X.int("listen_port", 1, 65535)
    cport = X.int("connect_port", 1, 65535)
    mode_transport = X.choose("mode_transport", ["tcp", "udp", "both"])
    transport = X.choose("conn_transport", ["tcp", "udp"])
    served = mode_transport == "both" or mode_transport == transport
    return lport, cport, mode_transport, transport, served


def h_sym(X, fam):
    """every destination address of one family (canonical text), symbolic ports, all listen configurations"""
    lport, cport, mode_transport, transport, served = _common(X)
    which = X.choose("listen_host", LISTEN)
    lfam = X.choose("listen_family", [4, 6]) if which == "specific" else fam
    servers, hosts, decoy_port = _servers(X, which, lport, lfam, mode_transport)
    served = served or _servers.twin  # main and twin together serve both transports
    n = X.bv("dest_addr", 32 if fam == 4 else 128)
    dest_host = SymHost(fam, n) if X.symbolic else str(_mk_addr(fam, n))
    got = _run(servers, dest_host, cport, transport)
    must = _must_refuse((fam, n), hosts, cport == lport, served)
    X.reach("decided")
    if got:
        X.reach("refused")
        return
    X.reach("allowed")
    if bool(must):
        X.reach("must-refuse")
        # classify the witness (each class is its own path / key)
        if bool(_wild(fam, n)):
            cls, rep = "wildcard-dest", ("0.0.0.0" if fam == 4 else "::")
        elif fam == 6 and bool(_v6_mapped(n)):
            cls, rep = "loopback-mapped", "::ffff:127.0.0.0-8"
        elif bool(_loop(fam, n)):
            cls, rep = "loopback-alias", ("127.0.0.0-8" if fam == 4 else "::1")
        else:
            cls, rep = "listen-address", "specific"
        if mode_transport == "both":
            cls = "transport-both/" + cls
        X.fail(f"C23/{cls}/{rep}", f"destination {dest_host} port=listen port, {transport} via mode transport {mode_transport!r}, "
               f"listening on {which!r}: not refused", dest=str(dest_host), listen=which)


# text spellings: (text, family/'name', int value or is-localhost flag, class)
SPELLINGS = [
    ("127.0.0.1", 4, 0x7F000001, "loopback"), ("127.0.0.2", 4, 0x7F000002, "loopback-alias"),
    ("127.255.255.254", 4, 0x7FFFFFFE, "loopback-alias"),
    ("::1", 6, 1, "loopback"), ("0:0:0:0:0:0:0:1", 6, 1, "loopback-spelling"), ("::0001", 6, 1, "loopback-spelling"),
    ("::ffff:127.0.0.1", 6, 0xFFFF7F000001, "loopback-mapped"), ("::FFFF:7F00:1", 6, 0xFFFF7F000001, "loopback-mapped"),
    ("0.0.0.0", 4, 0, "wildcard-dest"), ("::", 6, 0, "wildcard-dest"), ("0:0:0:0:0:0:0:0", 6, 0, "wildcard-dest"),
    ("localhost", "name", True, "localhost"), ("LOCALHOST", "name", True, "localhost-spelling"),
    ("Localhost", "name", True, "localhost-spelling"), ("localhost.", "name", True, "localhost-spelling"),
    ("LocalHost.", "name", True, "localhost-spelling"),
    ("192.0.2.5", 4, 0xC0000205, "listen-address"), ("2001:db8::5", 6, 0x20010DB8 << 96 | 5, "listen-address"),
    ("2001:DB8:0::5", 6, 0x20010DB8 << 96 | 5, "listen-address-spelling"),
    ("other.example", "name", False, "other"), ("localhost.example", "name", False, "other"), ("10.1.2.3", 4, 0x0A010203, "other"),
]
LISTEN_TEXT = ["127.0.0.1", "::1", "0.0.0.0", "::", "", "192.0.2.5", "2001:db8::5"]


def h_text(X, spellings, full=True, quick=False):
    if full:
        lport, cport, mode_transport, transport, served = _common(X)
        which = X.choose("listen_host", LISTEN_TEXT)
    else:  # spelling sweep: one representative configuration, ports still symbolic
        di = X.choose("dest", len(spellings))
        if quick:
            X.assume((di // 2) % 16 in (0, 5))
        lport, cport = X.int("listen_port", 1, 65535), X.int("connect_port", 1, 65535)
        mode_transport = transport = "tcp"
        served = True
        which = X.choose("listen_host", ["127.0.0.1", ""])
    if which == "":
        hosts = [(4, 0, "0.0.0.0"), (6, 0, "::")]
    else:
        a = _real_ip_address(which)
        hosts = [(a.version, int(a), which)]
    addrs = [(h, lport) if f == 4 else (h, lport, 0, 0) for f, _, h in hosts]
    main = _Srv(_mode(mode_transport), addrs)
    decoy_port = X.int("decoy_port", 1, 65535)
    X.assume(decoy_port != lport)
    decoy = _Srv(_mode("tcp"), [("127.0.0.1", decoy_port)])
    order = X.choose("decoy", ["none", "before", "after"]) if full else "before"
    servers = [main] if order == "none" else ([decoy, main] if order == "before" else [main, decoy])
    if full:
        di = X.choose("dest", len(spellings))
    text, fam, val, cls = spellings[di]
    got = _run(servers, text, cport, transport)
    dest = ("name", val, text) if fam == "name" else (fam, val)
    must = _must_refuse(dest, hosts, cport == lport, served)
    X.reach("decided")
    if got:
        X.reach("refused")
        return
    X.reach("allowed")
    if bool(must):
        X.reach("must-refuse")
        if mode_transport == "both":
            cls = "transport-both/" + cls
        rep = text
        if not full:  # sweep: one key per spelling class, the spelling itself is in the message / witness
            rep = ("mixed-case" if text.rstrip(".") != "localhost" else "lower-case") + ("+trailing-dot" if text.endswith(".") else "")
        X.fail(f"C23/{cls}/{rep}", f"destination {text!r} port=listen port, {transport} via mode transport {mode_transport!r}, "
               f"listening on {which!r}: not refused", dest=text, listen=which)


def _case_spellings():
    out = []
    base = "localhost"
    for mask in range(1 << len(base)):
        s = "".join(c.upper() if mask >> i & 1 else c for i, c in enumerate(base))
        out.append((s, "name", True, "localhost" if mask == 0 else "localhost-spelling"))
        out.append((s + ".", "name", True, "localhost-spelling"))
    return out


def obligations(tier):
    stubs = ["Proxyserver.servers -> stub list", "ipaddress.ip_address -> shim for SymHost", "isinstance shim in ipaddress"]
    cases = _case_spellings()
    ncases = len(cases)
    if tier == "quick":  # every 16th case mask (with and without trailing dot); thorough: all 2^9 masks.  Same menu in both
        ncases = sum(1 for i in range(len(cases)) if (i // 2) % 16 in (0, 5))  # tiers, pruned by assume => witnesses replay in either tier
    spell = SPELLINGS
    obs = [
        Symx("dest-v4-all", lambda X: h_sym(X, 4),
             bounds="all 2^32 IPv4 destinations (canonical text) x listen host {127.0.0.1, ::1, 0.0.0.0, ::, '' (both wildcards), any specific IPv4/IPv6 address (symbolic)} "
                    "x symbolic listen/connect/decoy ports 1..65535 x mode transport {tcp,udp,both} x connection transport {tcp,udp} x {no second instance, decoy instance on another port before/after, twin instance on the same "
                    "addresses and port serving the other transport before/after}",
             encoded=ENCODED, must_reach=["decided", "refused", "allowed", "twin-other-transport"], stubs=stubs, parallel_depth=3),
        Symx("dest-v6-all", lambda X: h_sym(X, 6),
             bounds="all 2^128 IPv6 destinations (canonical text, incl. IPv4-mapped) x the same listen/port/transport space",
             encoded=ENCODED, must_reach=["decided", "refused", "allowed"], stubs=stubs, parallel_depth=3),
        Symx("dest-spellings", lambda X: h_text(X, spell),
             bounds=f"{len(spell)} textual destinations (localhost case/trailing-dot variants, non-canonical IPv6 spellings, mapped loopback, wildcards, "
                    f"listen address and a re-spelling of it, unrelated hosts) x {len(LISTEN_TEXT)} listen hosts x symbolic ports x transports x decoy position; "
                    "real string handling, no SymHost",
             encoded=ENCODED, must_reach=["decided", "refused", "allowed"], stubs=stubs[:1], parallel_depth=3),
        Symx("localhost-case-sweep", lambda X: h_text(X, cases, full=False, quick=(tier == "quick")),
             bounds=f"{ncases} spellings of localhost (upper/lower case masks over the 9 letters, with and without trailing dot) x listen host {{127.0.0.1, all interfaces}} "
                    "x symbolic listen/connect/decoy ports, tcp",
             encoded=ENCODED, must_reach=["decided", "refused", "allowed"], stubs=stubs[:1], parallel_depth=2),
    ]
    return obs
