"""C33 — request URL, host, port and authority stay consistent.

The real `Request.url` setter/getter, `host`/`port` setters, `_update_host_and_authority`, `url.parse / unparse /
hostport / parse_authority` and `check.is_valid_host` are executed natively on inputs whose structure (scheme,
host class and spelling, port text, path/query characters, request kind, edit sequence) is enumerated by the solver
(engine symx); the oracle is `vf/refs/urlref.py`, a splitter/normaliser written from RFC 3986 / RFC 9110 (scheme and
host case, IDNA A-/U-label identity from a literal table, IPv6 literal value, default-port elision, empty path).
The regex literals `check._label_valid` and `url._authority_re` are lifted from the current source and compared with
the RFC 1123 / RFC 3986 classes by z3 regex inclusion (engine smt).
"""
import re

import z3

from vf import smt
from vf.ob import Smt, Symx
from vf.refs import urlref

LEVEL = "model_checking"
ASSUMPTIONS = [
    "oracle = vf/refs/urlref.py (RFC 3986 splitter + http(s) normaliser); IDNA equivalence is a literal U-label/A-label table for the menu labels",
    "a Host header carrying the U-label form (raw UTF-8) of an IDN host counts as naming that host (weaker reading)",
    "mitmproxy rejecting (ValueError) a URL that is not a valid RFC 3986 URI (space, raw non-ASCII, U-label host) is not judged; "
    "rejecting a valid URI, or its own `Request.url` output, is",
    "an underscore in a host label is accepted by the reference too (documented mitmproxy deviation from RFC 1123)",
]
OUTSIDE = ["userinfo", "IPv6 zone identifiers", "paths longer than the bound", "dot-segment removal (mitmproxy keeps paths verbatim)",
           "CONNECT / authority-form requests", "IDN labels outside the reference table"]
ENCODED = [
    "mitmproxy.http:Request.url", "mitmproxy.http:Request.host", "mitmproxy.http:Request.port",
    "mitmproxy.http:Request._update_host_and_authority", "mitmproxy.http:Request.authority",
    "mitmproxy.net.http.url:parse", "mitmproxy.net.http.url:unparse", "mitmproxy.net.http.url:hostport",
    "mitmproxy.net.http.url:default_port", "mitmproxy.net.http.url:parse_authority",
    "mitmproxy.net.check:is_valid_host", "mitmproxy.net.check:is_valid_port",
]

SCHEMES = ["http", "https", "HTtp"]
NAMES = ["example.com", "EXAMPLE.Com", "a-b.example.", "x_y.test", "localhost", "1e100.net"]
IDN_A = ["xn--bcher-kva.example", "XN--BCHER-KVA.Example", "xn--r8jz45g.jp"]
IDN_U = ["bücher.example", "BÜCHER.example", "例え.jp"]
PORTS = [None, "", "80", "443", "8080", "080", "1", "65535", "65536", "0"]
OCT_OUT = [0, 1, 127, 255]
OCT_IN = [0, 255]
GROUPS = [0, 1, 0x2001, 0xFFFF]
TIER = {"thorough": False}
RESTS = ["", "/", "/a?b=c"]
ALPHABET = ["a", "1", "/", "?", "#", "%", "@", ":", ";", " ", "é"]
KINDS = ["h1-host", "h1-nohost", "h1-absolute", "h2-authority"]
HOST_MENU = ["example.com", "EXAMPLE.Com.", "xn--bcher-kva.example", "127.0.0.1", "[::1]", "[2001:DB8::1]"]


def _host(X, classes):
    """-> (class, text as written in a URL, is a valid URI host)"""
    cls = X.choose("host_class", classes)
    if cls == "name":
        return cls, X.choose("name", NAMES), True
    if cls == "idn-a":
        return cls, X.choose("name", IDN_A), True
    if cls == "idn-u":
        return cls, X.choose("name", IDN_U), False  # an IRI, not a URI
    if cls == "ipv4":
        o = [X.choose("o1", OCT_OUT), X.choose("o2", OCT_IN), X.choose("o3", OCT_IN if TIER["thorough"] else [1]), X.choose("o4", OCT_OUT)]
        return cls, ".".join(map(str, o)), True
    if cls == "menu":
        h = X.choose("name", HOST_MENU)
        return ("ipv6" if h.startswith("[") else ("idn-a" if "xn--" in h.lower() else ("ipv4" if h[0].isdigit() else "name"))), h, True
    # IPv6 literal from two solver-chosen groups, four spellings; always bracketed in a URL
    gs = GROUPS if TIER["thorough"] else GROUPS[:2] + GROUPS[3:]
    g0, g7 = X.choose("g0", gs), X.choose("g7", gs)
    form = X.choose("v6form", ["compressed", "full", "upper", "mapped"])
    if form == "compressed":
        t = ("%x::%x" % (g0, g7)) if g0 else ("::%x" % g7 if g7 else "::")
    elif form == "full":
        t = "%x:0:0:0:0:0:0:%x" % (g0, g7)
    elif form == "upper":
        t = "%04X:0000:0000:0000:0000:0000:0000:%04X" % (g0, g7)
    else:
        t = "::ffff:10.0.%d.%d" % (g0 & 0xFF, g7 & 0xFF)
    return "ipv6", "[" + t + "]", True


def _mk(kind, scheme=b"http", host="old.example", port=8081):
    from mitmproxy import http
    from mitmproxy.net.http import url

    hp = url.hostport(scheme, host.encode(), port)
    headers = http.Headers()
    authority, version = b"", b"HTTP/1.1"
    if kind in ("h1-host", "h1-absolute"):
        headers["Host"] = hp
    if kind in ("h1-absolute", "h2-authority"):
        authority = hp
    if kind == "h2-authority":
        version = b"HTTP/2.0"
    headers["X-Other"] = "v"
    return http.Request(host, port, b"GET", scheme, authority, b"/old", version, headers, b"", None, 0, 0)


def _valid_rest(rest):
    return all(c in urlref._REST_OK for c in rest)


def _dangling_semicolon(ref_path, got_path):
    """True iff got_path is ref_path minus a single ';' that ends the last path segment with nothing after it
    (an EMPTY params component: urlparse/urlunparse drop the bare delimiter) -- a known, separate finding"""
    cut = min([i for i in (ref_path.find("?"), ref_path.find("#")) if i >= 0] or [len(ref_path)])
    head, tail = ref_path[:cut], ref_path[cut:]
    last = head.rsplit("/", 1)[-1]
    return head.endswith(";") and last.count(";") == 1 and head[:-1] + tail == got_path


def _judge_url_roundtrip(X, r, u, cls, valid, tag):
    """r.url = u ; v = r.url ; equivalence, component consistency, idempotence"""
    try:
        ref = urlref.norm(u)
    except urlref.Invalid:
        ref = None
    try:
        r.url = u
    except ValueError as e:
        X.reach("rejected")
        if valid and ref is not None and 0 < ref[2] <= 65535:
            X.fail(f"C33/{tag}/rejects-valid-url/{cls}", f"r.url = {u!r} raised {type(e).__name__}: {e}")
        return None
    X.reach("accepted")
    v = r.url
    X.note("url", [u, v])
    if ref is None:
        return v  # accepted something the reference cannot read: nothing to compare with
    try:
        refv = urlref.norm(v)
    except urlref.Invalid as e:
        X.fail(f"C33/{tag}/getter-output-not-a-url/{cls}", f"r.url = {u!r}; r.url reads {v!r}, which is not a valid URL ({e})")
    for i, comp in enumerate(("scheme", "host", "port", "path")):
        key = "C33/url-port-zero-becomes-default" if comp == "port" and ref[2] == 0 else f"C33/{tag}/not-equivalent/{comp}/{cls}"
        if comp == "path" and refv[i] != ref[i] and _dangling_semicolon(ref[i], refv[i]):
            key = f"C33/{tag}/empty-params-delimiter-lost"
        X.check(refv[i] == ref[i], key, f"r.url = {u!r}; r.url reads {v!r}: {comp} {refv[i]!r} != {ref[i]!r}")
    # attributes agree with v
    X.check(r.scheme == refv[0], f"C33/{tag}/attr/scheme", f"scheme {r.scheme!r} vs url {v!r}")
    X.check(r.port == refv[2], f"C33/{tag}/attr/port", f"port {r.port!r} vs url {v!r}")
    try:
        hk = urlref.hostkey(r.host)
    except urlref.Invalid as e:
        hk = ("invalid", str(e))
    X.check(hk == refv[1], f"C33/{tag}/attr/host/{cls}", f"host {r.host!r} vs url {v!r}")
    X.check(urlref.norm_rest(r.path) == refv[3], f"C33/{tag}/attr/path", f"path {r.path!r} vs url {v!r}")
    X.check(r.path.startswith("/"), f"C33/{tag}/attr/path-not-origin-form", f"r.url = {u!r}: path {r.path!r} does not start with '/'")
    # assigning the result again changes nothing
    st = r.get_state()
    try:
        r.url = v
    except ValueError as e:
        X.fail(f"C33/{tag}/reassign-own-output-rejected/{cls}", f"r.url = {u!r}; v = r.url = {v!r}; r.url = v raised {type(e).__name__}: {e}")
    X.check(r.get_state() == st, f"C33/{tag}/reassign-not-idempotent/{cls}", f"r.url = {u!r}; v = {v!r}; r.url = v changed the request: url now {r.url!r}")
    X.reach("idempotent")
    return v


def h_url_hosts(X):
    scheme = X.choose("scheme", SCHEMES)
    cls, host, valid = _host(X, ["name", "idn-a", "idn-u", "ipv4", "ipv6"])
    port = X.choose("port", PORTS)
    rest = X.choose("rest", RESTS)
    kind = X.choose("kind", KINDS if TIER["thorough"] else ["h1-host", "h2-authority"])
    u = f"{scheme}://{host}" + ("" if port is None else ":" + port) + rest
    r = _mk(kind)
    _judge_url_roundtrip(X, r, u, cls, valid, "url")


def h_url_paths(X, n):
    scheme = X.choose("scheme", ["http", "https"])
    host = X.choose("host", ["example.com", "10.0.0.1"])
    port = X.choose("port", [None, "8080"])
    lead = X.choose("lead", ["", "/", "?", "#", "/p/"])
    k = X.choose("len", n + 1)
    s = "".join(X.choose("ch", ALPHABET) for _ in range(k))
    rest = lead + s
    if lead == "" and s:
        X.assume(False)  # the rest must start with / ? # (anything else would extend the authority)
    u = f"{scheme}://{host}" + ("" if port is None else ":" + port) + rest
    r = _mk("h1-host")
    v = _judge_url_roundtrip(X, r, u, "name", _valid_rest(rest), "path")
    if v is not None and not _valid_rest(rest):
        X.reach("accepted-invalid-chars")


def h_port_digits(X, n):
    scheme = X.choose("scheme", ["http", "https"])
    k = X.choose("ndigits", n + 1)
    d = "".join(str(X.choose("digit", 10)) for _ in range(k))
    u = f"{scheme}://example.com:{d}/p"
    r = _mk("h1-host")
    v = _judge_url_roundtrip(X, r, u, "name", True, "port")
    if v is not None:
        ok, why = urlref.names(r.headers["Host"], r.scheme, "example.com", urlref.effective_port(scheme, d))
        X.check(ok, "C33/port/host-header", f"r.url = {u!r}: Host header {r.headers['Host']!r} {why}")
        if ":" not in v[8:]:
            X.reach("default-elided")


HOSTS2 = ["new.example", "NEW.Example", "bücher.example", b"xn--bcher-kva.example", "10.0.0.1", "::1", "[::1]", "2001:db8::1", "example.com."]
PORTS2 = [80, 443, 8080, 1, 65535]
URLS2 = ["http://new.example/x", "https://new.example:8443/x", "http://[2001:db8::1]:8080/", "https://[::1]/", "http://xn--bcher-kva.example:81/", "https://10.0.0.1:80/"]


def _hclass(h):
    if isinstance(h, bytes):
        return "idn"
    if ":" in h:
        return "ipv6"
    if any(ord(c) > 127 for c in h):
        return "idn"
    return "ipv4" if h[0].isdigit() else "name"


def h_setters(X):
    """after r.host = h2 / r.port = p2 / r.url = u an existing Host header and authority name the new destination"""
    kind = X.choose("kind", KINDS)
    scheme0 = X.choose("scheme0", [b"http", b"https"])
    port0 = X.choose("port0", ["default", 8081])
    port0 = (80 if scheme0 == b"http" else 443) if port0 == "default" else port0
    r = _mk(kind, scheme0, "old.example", port0)
    seq = X.choose("edits", [("host",), ("port",), ("host", "port"), ("port", "host"), ("url",), ("url", "port"), ("host", "url")])
    H, P, S = "old.example", port0, scheme0.decode()
    cls = "name"
    for op in seq:
        if op == "host":
            h2 = X.choose("host2", HOSTS2)
            r.host = h2
            H = h2.decode("ascii") if isinstance(h2, bytes) else h2
            cls = _hclass(h2)
        elif op == "port":
            P = X.choose("port2", PORTS2)
            r.port = P
        else:
            u = X.choose("url2", URLS2)
            r.url = u
            p = urlref.split(u)
            H, P, S = p.host, urlref.effective_port(p.scheme, p.port_text), p.scheme
            cls = _hclass(p.host.strip("[]"))
    X.note("edits", [seq, H, P])
    X.check(r.port == P, "C33/setter/port-readback", f"port reads {r.port!r}, expected {P}")
    try:
        same = urlref.hostkey(r.host) == urlref.hostkey(H)
    except urlref.Invalid:
        same = False
    X.check(same, f"C33/setter/host-readback/{cls}", f"host reads {r.host!r}, expected {H!r}")
    if "Host" in r.headers:
        X.reach("host-header")
        ok, why = urlref.names(r.headers["Host"], S, H, P)
        X.check(ok, f"C33/setter/host-header/{cls}", f"after {seq} -> ({H!r},{P}) scheme {S}: Host header {r.headers['Host']!r} {why}")
    else:
        X.check(kind in ("h1-nohost", "h2-authority"), "C33/setter/host-header-dropped", "existing Host header disappeared")
    if kind in ("h1-absolute", "h2-authority"):
        X.reach("authority")
        X.check(r.data.authority != b"", "C33/setter/authority-dropped", "existing authority disappeared")
        ok, why = urlref.names(r.authority, S, H, P)
        X.check(ok, f"C33/setter/authority/{cls}", f"after {seq} -> ({H!r},{P}) scheme {S}: authority {r.authority!r} (raw {r.data.authority!r}) {why}")
        try:
            raw = r.data.authority.decode("ascii")
        except UnicodeDecodeError:
            raw = None
        X.check(raw is not None, f"C33/setter/authority-raw-not-ascii/{cls}", f"raw authority {r.data.authority!r}")
    else:
        X.check(r.data.authority == b"", "C33/setter/authority-created", f"authority created on a request without one: {r.data.authority!r}")
    X.reach("end")


def h_parse_unparse(X, n):
    """url.parse / url.unparse called directly with str and bytes"""
    from mitmproxy.net.http import url

    api = X.choose("api", ["str", "bytes"])
    scheme = X.choose("scheme", ["http", "https"])
    cls, host, valid = _host(X, ["menu"])
    port = X.choose("port", [None, "80", "8080", "65535"])
    lead = X.choose("lead", ["", "/", "?", "/p?", "/p?k=v&x="])
    k = X.choose("len", n + 1)
    s = "".join(X.choose("ch", ALPHABET) for _ in range(k))
    if lead == "" and s:
        X.assume(False)
    rest = lead + s
    u = f"{scheme}://{host}" + ("" if port is None else ":" + port) + rest
    arg = u if api == "str" else u.encode("utf-8")
    ref = urlref.norm(u)
    try:
        p = url.parse(arg)
    except ValueError as e:
        X.reach("rejected")
        X.check(not (valid and _valid_rest(rest)), f"C33/parse/rejects-valid-url/{cls}", f"url.parse({arg!r}) raised {type(e).__name__}: {e}")
        return
    X.reach("parsed")
    sc, h, po, pa = p
    nonascii = "/nonascii-" + api if not _valid_rest(rest) and any(ord(c) > 127 for c in rest) else ""
    X.check(all(isinstance(x, bytes) for x in (sc, h, pa)) and isinstance(po, int), "C33/parse/types", f"url.parse({arg!r}) -> {p!r}")
    X.check(sc.decode() == ref[0], "C33/parse/scheme", f"url.parse({arg!r}) -> {p!r}")
    X.check(po == ref[2], "C33/parse/port", f"url.parse({arg!r}) -> {p!r}, expected port {ref[2]}")
    try:
        hk = urlref.hostkey(h.decode("ascii"))
    except (urlref.Invalid, UnicodeDecodeError):
        hk = None
    X.check(hk == ref[1], f"C33/parse/host/{cls}", f"url.parse({arg!r}) -> host {h!r}")
    _got = urlref.norm_rest(pa.decode("ascii", "replace"))
    X.check(_got == ref[3], "C33/parse/empty-params-delimiter-lost" if _dangling_semicolon(ref[3], _got) else f"C33/parse/path-not-equivalent{nonascii}",
            f"url.parse({arg!r}) -> path {pa!r}; reference {ref[3]!r}")
    back = url.unparse(sc, h, po, pa)
    try:
        nb = urlref.norm(back.decode("ascii"))
    except (urlref.Invalid, UnicodeDecodeError) as e:
        X.fail(f"C33/parse/unparse-not-a-url/{cls}", f"unparse(*parse({arg!r})) = {back!r}: {e}")
    X.check(nb == ref, "C33/parse/empty-params-delimiter-lost" if (nb[:3] == ref[:3] and _dangling_semicolon(ref[3], nb[3])) else f"C33/parse/unparse-not-equivalent/{cls}", f"unparse(*parse({arg!r})) = {back!r}")
    try:
        again = url.parse(back)
    except ValueError as e:
        X.fail(f"C33/parse/reparse-rejected/{cls}", f"parse(unparse(*parse({arg!r}))) raised {e}")
    X.check(again == p, f"C33/parse/not-a-fixpoint/{cls}", f"{p!r} -> {back!r} -> {again!r}")


AUTH_PORTS = [None, "80", "443", "8080", "65535", "65536", "", "x", "8 0", "+80", "\u0668\u0660", "80\n"]


def h_parse_authority(X):
    """url.parse_authority on host[:port] texts: the Host header / :authority / CONNECT target gate"""
    from mitmproxy.net.http import url

    cls, host, valid = _host(X, ["name", "idn-a", "idn-u", "ipv4", "ipv6"] if TIER["thorough"] else ["menu", "idn-u"])
    port = X.choose("port", AUTH_PORTS)
    a = host + ("" if port is None else ":" + port)
    as_bytes = X.boolean("as_bytes")
    arg = a.encode("utf-8") if as_bytes else a
    port_ok = port is None or (port.isascii() and port.isdigit() and int(port) <= 65535)
    # lenient mode never raises
    try:
        lh, lp = url.parse_authority(arg, check=False)
    except Exception as e:  # noqa
        X.fail("C33/parse-authority/lenient-raises", f"parse_authority({arg!r}, check=False) raised {type(e).__name__}: {e}")
    try:
        h, p = url.parse_authority(arg, check=True)
    except ValueError:
        X.reach("rejected")
        X.check(not (port_ok and valid) or cls == "idn-u", f"C33/parse-authority/rejects-valid/{cls}", f"parse_authority({arg!r}, check=True) raised ValueError")
        X.check((lh, lp) == (a, None), "C33/parse-authority/lenient-fallback", f"parse_authority({arg!r}, check=False) -> {(lh, lp)!r}, expected the input and None")
        return
    X.reach("accepted")
    why = "non-ascii-digit" if port and not port.isascii() else ("trailing-newline" if port and port.endswith("\n") else "other")
    X.check(port_ok, f"C33/parse-authority/accepts-bad-port/{why}", f"parse_authority({arg!r}, check=True) -> {(h, p)!r}")
    X.check(p == (None if port is None else int(port)), "C33/parse-authority/port", f"parse_authority({arg!r}, check=True) -> port {p!r}")
    try:
        same = urlref.hostkey(h) == urlref.hostkey(host)
    except urlref.Invalid:
        same = False
    X.check(same and not h.startswith("["), f"C33/parse-authority/host/{cls}", f"parse_authority({arg!r}, check=True) -> host {h!r}")
    X.check((lh, lp) == (h, p), "C33/parse-authority/lenient-differs", f"check=False gives {(lh, lp)!r}, check=True {(h, p)!r}")


LABELS = [b"a", b"A1", b"-", b"a-", b"a_b", b"a" * 63, b"a" * 64, b"", b"xn--bcher-kva", b"b\xc3\xbccher", b"a b", b"a\n", b"a\x00", b"1", b"256", b"a/b", b"a:b", b"*"]


def _ref_valid_host(hb):
    """RFC 1035/1123 (+ underscore, documented) hostname, or an IPv4/IPv6 literal; <= 255 bytes"""
    import ipaddress

    if len(hb) > 255:
        return False
    try:
        text = hb.decode("ascii")
    except UnicodeDecodeError:
        return False
    try:
        ipaddress.ip_address(text)
        return True
    except ValueError:
        pass
    if text.endswith("."):
        text = text[:-1]
    ok = set("abcdefghijklmnopqrstuvwxyzABCDEFGHIJKLMNOPQRSTUVWXYZ0123456789-_")
    labs = text.split(".")
    return all(1 <= len(l) <= 63 and all(c in ok for c in l) for l in labs)


def h_valid_host(X):
    from mitmproxy.net import check

    n = X.choose("shape", [1, 2, 3, 5, "ip"] if TIER["thorough"] else [1, 2, 5, "ip"])
    if n == "ip":
        hb = X.choose("literal", [b"::1", b"1.2.3.4", b"2001:db8::85a3::7334", b"::ffff:1.2.3.4", b"1.2.3.4.", b"[::1]", b"fe80::1%eth0"])
    else:
        if n == 5:
            labs = [X.choose("long", [b"a" * 63, b"a" * 62])] * 4 + [X.choose("last", [b"a", b"aa", b"aaa", b"aaaa"])]
        else:
            labs = [X.choose("label", LABELS) for _ in range(n)]
        hb = b".".join(labs) + (b"." if X.boolean("trailing_dot") else b"")
    as_str = X.boolean("as_str")
    arg = hb
    if as_str:
        try:
            arg = hb.decode("utf-8")
        except UnicodeDecodeError:
            X.assume(False)
    got = check.is_valid_host(arg)
    exp = _ref_valid_host(hb if not as_str else arg.encode("utf-8"))
    X.reach("decided")
    if got:
        X.reach("accepted")
    if got and not exp:
        # U-labels given as str are IDNA-encoded first: valid if the A-label form is
        if as_str:
            try:
                exp2 = _ref_valid_host(arg.encode("idna"))
            except UnicodeError:
                exp2 = False
            if exp2:
                return
        bad = "control-char" if any(c < 0x21 or c == 0x7F for c in hb) else ("length" if len(hb) > 255 else "other")
        X.fail(f"C33/valid-host/accepts-invalid/{bad}", f"is_valid_host({arg!r}) is True; the reference (RFC 1123 labels + '_', IP literals, <= 255 bytes) rejects it")
    if exp and not got and len(hb) <= 253:
        X.fail("C33/valid-host/rejects-valid", f"is_valid_host({arg!r}) is False for a valid hostname / IP literal")


# ------------------------------------------------------------------------------------------
# SMT: regex literals


def _build_regex_queries():
    from mitmproxy.net import check
    from mitmproxy.net.http import url

    qs = []
    pat, flags = smt.source_regex("mitmproxy/net/check.py", "_label_valid")
    fl = 0
    for f in flags:
        for part in f.split("|"):
            fl |= getattr(re, part.strip().split(".")[-1])
    # used with .match(): anchored at the start, the pattern's own `$` at the end
    rl = smt.regex_to_z3(pat, fl)
    real = re.compile(pat, fl)
    ldh_us = z3.Union(z3.Range("a", "z"), z3.Range("A", "Z"), z3.Range("0", "9"), smt.chars("-_"))
    ldh = z3.Union(z3.Range("a", "z"), z3.Range("A", "Z"), z3.Range("0", "9"), smt.chars("-"))

    def rp_wide(w):
        v = w["s"].encode("latin-1", "replace")
        ok = bool(real.match(v))
        return ok, f"_label_valid.match({v!r}) succeeds (is_valid_host({v!r}) = {check.is_valid_host(v)}): not 1-63 characters of [A-Za-z0-9_-]"

    nonl = smt.no_chars("\n")
    qs.append(smt.lang_subset("label ⊆ (LDH|_){1,63} (no newline in input)", rl, z3.Loop(ldh_us, 1, 63), key="C33/regex/label-too-wide", replay=rp_wide, within=nonl))
    qs.append(smt.Query("no accepted label ends in a newline", [z3.InRe(z3.String("s"), z3.Intersect(rl, z3.Concat(smt.any_string(), z3.Re(z3.StringVal("\n")))))],
                        key="C33/regex/label-trailing-newline", witness_vars=[z3.String("s")], replay=rp_wide))

    def rp_narrow(w):
        v = w["s"].encode("latin-1", "replace")
        return (not real.match(v)), f"_label_valid rejects the RFC 1123 label {v!r}"

    qs.append(smt.lang_subset("LDH{1,63} ⊆ label", z3.Loop(ldh, 1, 63), rl, key="C33/regex/label-too-narrow", replay=rp_narrow))

    apat, aflags = smt.source_regex("mitmproxy/net/http/url.py", "_authority_re")
    afl = 0
    for f in aflags:
        for part in f.split("|"):
            afl |= getattr(re, part.strip().split(".")[-1])
    ra = smt.regex_to_z3(apat, afl)
    areal = re.compile(apat, afl)
    digit = z3.Range("0", "9")
    hexd = z3.Union(digit, z3.Range("a", "f"), z3.Range("A", "F"))
    label = z3.Loop(ldh_us, 1, 63)
    regname = z3.Concat(label, z3.Star(z3.Concat(z3.Re(z3.StringVal(".")), label)), z3.Option(z3.Re(z3.StringVal("."))))
    ipv4 = z3.Concat(z3.Loop(digit, 1, 3), z3.Re(z3.StringVal(".")), z3.Loop(digit, 1, 3), z3.Re(z3.StringVal(".")), z3.Loop(digit, 1, 3), z3.Re(z3.StringVal(".")), z3.Loop(digit, 1, 3))
    ip6 = z3.Concat(z3.Re(z3.StringVal("[")), z3.Plus(z3.Union(hexd, smt.chars(":."))), z3.Re(z3.StringVal("]")))
    rfc_auth = z3.Concat(z3.Union(regname, ipv4, ip6), z3.Option(z3.Concat(z3.Re(z3.StringVal(":")), z3.Plus(digit))))

    def rp_auth_narrow(w):
        v = w["s"]
        return (not areal.match(v)), f"_authority_re does not match the RFC 3986 authority {v!r}"

    qs.append(smt.lang_subset("RFC 3986 host[:port] ⊆ _authority_re", rfc_auth, ra, key="C33/regex/authority-too-narrow", replay=rp_auth_narrow))

    # everything the regex accepts splits as (no-colon host | bracketed) [":" 1*DIGIT] with ASCII digits
    anych = smt.any_string()
    host_shape = z3.Union(z3.Plus(_class_except(":")), z3.Concat(z3.Re(z3.StringVal("[")), z3.Plus(_class_except("")), z3.Re(z3.StringVal("]"))))
    nd_ranges = smt._unicode_decimal_ranges()
    nd = smt._re_of_ranges(nd_ranges)  # what \d means in a str pattern without re.ASCII
    nd_nonascii = smt._re_of_ranges([r for r in nd_ranges if r != (48, 57)])
    shape = z3.Concat(host_shape, z3.Option(z3.Concat(z3.Re(z3.StringVal(":")), z3.Plus(nd))))

    def rp_auth(w):
        v = w["s"]
        try:
            h, p = url.parse_authority(v, check=False)
            m = areal.match(v)
            ok = bool(m)
        except ValueError:
            ok, m = False, None
        port = m.group("port") if m else None
        return ok, f"_authority_re matches {v!r} (port group {port!r}): not (colon-free host | [bracketed]) [':' 1*DIGIT] with ASCII digits"

    qs.append(smt.lang_subset("_authority_re ⊆ (colon-free host | [..]) [: digits] (no newline in input)", ra, shape, key="C33/regex/authority-host-shape", replay=rp_auth, within=nonl))
    bad_port = z3.Concat(anych, z3.Re(z3.StringVal(":")), z3.Star(nd), nd_nonascii, z3.Star(nd))
    qs.append(smt.Query("no match has a non-ASCII digit in the port", [z3.InRe(z3.String("s"), z3.Intersect(ra, nonl, bad_port))], key="C33/regex/authority-port-non-ascii-digit",
                        witness_vars=[z3.String("s")], replay=rp_auth))
    # a port followed by a newline is not a port
    tail_nl = z3.Concat(anych, z3.Re(z3.StringVal(":")), z3.Plus(digit), z3.Re(z3.StringVal("\n")))

    def rp_nl(w):
        v = w["s"]
        try:
            r = url.parse_authority(v, check=True)
            return True, f"parse_authority({v!r}, check=True) -> {r!r}: trailing newline accepted"
        except ValueError:
            return bool(areal.match(v)), f"_authority_re matches {v!r} (trailing newline after the port)"

    qs.append(smt.Query("no match ends in ':' digits newline", [z3.InRe(z3.String("s"), z3.Intersect(ra, tail_nl))], key="C33/regex/authority-trailing-newline",
                        witness_vars=[z3.String("s")], replay=rp_nl))
    return qs


def _class_except(excluded):
    """one character that is none of `excluded`"""
    rs = smt._complement(smt._norm([(ord(c), ord(c)) for c in excluded]), smt.MAXCHAR) if excluded else [(0, smt.MAXCHAR)]
    return smt._re_of_ranges(rs)


def obligations(tier):
    TIER["thorough"] = tier == "thorough"
    n_path = 2 if tier == "quick" else 3
    n_dig = 3 if tier == "quick" else 5
    n_pu = 1 if tier == "quick" else 2
    return [
        Smt("regex-classes", _build_regex_queries,
            bounds="all strings: check._label_valid vs RFC 1123 label class (+ '_'), url._authority_re vs RFC 3986 host[:port] (both inclusions, port digits, trailing newline)",
            encoded=["mitmproxy.net.check:is_valid_host", "mitmproxy.net.http.url:parse_authority"]),
        Symx("url-hosts", h_url_hosts,
             bounds=f"schemes {SCHEMES} x hosts (names {len(NAMES)}, A-labels {len(IDN_A)}, U-labels {len(IDN_U)}, IPv4 4x2x2x4 octets, IPv6 4x4 groups x 4 spellings) "
                    f"x port text {PORTS} x rest {RESTS} x request kind {KINDS}",
             encoded=ENCODED, must_reach=["accepted", "rejected", "idempotent"], parallel_depth=3),
        Symx("url-paths", lambda X: h_url_paths(X, n_path),
             bounds=f"scheme x 2 hosts x 2 ports x lead {{'', '/', '?', '#', '/p/'}} x every string of <= {n_path} characters over {ALPHABET}",
             encoded=ENCODED[:1] + ENCODED[5:8], must_reach=["accepted", "rejected", "idempotent"], parallel_depth=3),
        Symx("port-digits", lambda X: h_port_digits(X, n_dig),
             bounds=f"http/https x every decimal port text of <= {n_dig} digits (leading zeros, empty, > 65535)",
             encoded=ENCODED[:1] + ENCODED[5:10], must_reach=["accepted", "idempotent", "default-elided"] + (["rejected"] if n_dig >= 5 else []), parallel_depth=3),
        Symx("host-port-setters", h_setters,
             bounds=f"request kinds {KINDS} x initial scheme/port x edit sequences (host, port, host+port, port+host, url, url+port, host+url) over hosts {HOSTS2}, ports {PORTS2}, urls {URLS2}",
             encoded=ENCODED[:5] + ENCODED[7:9], must_reach=["end", "host-header", "authority"], parallel_depth=3),
        Symx("parse-unparse", lambda X: h_parse_unparse(X, n_pu),
             bounds=f"url.parse(str|bytes) x scheme x hosts {HOST_MENU} x 4 ports x 5 leads x strings of <= {n_pu} characters over {ALPHABET}",
             encoded=ENCODED[5:9] + ENCODED[10:11], must_reach=["parsed", "rejected"], parallel_depth=3),
        Symx("parse-authority", h_parse_authority,
             bounds=f"host texts (menu {HOST_MENU} + U-labels; thorough: all host classes) x port text {AUTH_PORTS} x str/bytes, check=True and check=False",
             encoded=ENCODED[9:12], must_reach=["accepted", "rejected"], parallel_depth=2),
        Symx("valid-host", h_valid_host,
             bounds=f"hosts of 1-3 labels from a {len(LABELS)}-entry menu (63/64-byte labels, empty, '-', '_', space, newline, NUL, non-ASCII, A-label), 5-label names around 255 bytes, "
                    "trailing dot, IP literal menu, bytes and str argument",
             encoded=ENCODED[10:11], must_reach=["decided", "accepted"], parallel_depth=3),
    ]
