"""C14 — TLS interception is byte-transparent after the handshake (Python plumbing only).

The real `ClientTLSLayer` / `ServerTLSLayer` (`TLSLayer.receive_handshake_data / receive_data / send_data /
tls_interact / receive_close`) on top of the real `TunnelLayer` (`_handle_event`, `_handshake_finished`,
`event_to_child` queueing during ESTABLISHING, `_handle_command`) are driven by the sans-io driver.  The
pyOpenSSL connection object is supplied through the real `tls_start_client` / `tls_start_server` hooks, but it
is an OpenSSL *framing stub* (vf/refs/sslstub.py, DESIGN 2.3): real TLS record framing with a null cipher and
the documented bio_write / bio_read / recv / sendall / do_handshake / get_shutdown + WantReadError /
ZeroReturnError behaviour.  OPENSSL ITSELF IS TRUSTED AND OUTSIDE THE CLAIM: record protection, alerts other
than close_notify, renegotiation, key update and every decision taken inside libssl are not checked here.

The solver chooses (engine symx, every choice a solver-enumerated selector, native execution per path): which
TLS layer, how the upstream connection was opened, the inbound application stream and its split into records,
an interleaved post-handshake handshake record, the TCP segmentation of everything the peer sends from its
last handshake flight on (so application data / close_notify can share a segment with that flight), the
child's outbound SendData chunks and where they fall between inbound segments, the stub's outgoing fragment
size, close_notify and/or TCP close.

Oracle (from the property sentence): the concatenation of the DataReceived events the child layer sees equals
the plaintext the peer sent — once, in order, nothing before the child's Start; every byte the child sends
decodes from what mitmproxy wrote to the wire, once, in order; close_notify (or a TCP close) yields exactly one
ConnectionClosed, after all preceding data, and a TCP close following a close_notify adds no second one.
"""
from mitmproxy.proxy import commands, events, layer
from mitmproxy.proxy.layers import tls as ltls

from vf import sansio
from vf.ob import Concrete, Symx
from vf.refs import sslstub as S
from vf.refs import tlsref as T

LEVEL = "model_checking"
ASSUMPTIONS = [
    "OpenSSL (libssl via pyOpenSSL) is replaced by vf/refs/sslstub.py: null-cipher TLS record framing obeying the documented "
    "SSL.Connection contract (memory BIOs never block; recv returns the plaintext of at most one record per call; WantReadError when no "
    "complete record is buffered; close_notify -> RECEIVED_SHUTDOWN + ZeroReturnError; post-handshake handshake records are consumed "
    "inside recv).  OpenSSL itself is trusted and outside the claim",
    "the child layer is an instrumented recorder deriving from the real Layer base class (event pausing as verified in C04)",
    "addon hooks (tls_clienthello, tls_start_*, tls_established_*) complete immediately; tls_start_* installs the stub",
    "plaintext bytes are concrete position markers (TLSLayer copies plaintext through a C bytearray); sizes, splits and schedules are solver-chosen",
]
OUTSIDE = ["everything inside OpenSSL: record protection, MAC failures, alerts other than close_notify, renegotiation, KeyUpdate, early data",
           "handshake failures (C13 / tls_failed_* paths)", "DTLS / QUIC", "streams, record counts and schedules longer than the stated bounds",
           "a TCP close that truncates a record in the middle (data loss is then inherent)"]
TRUSTED = ["vf/refs/sslstub.py as a model of the pyOpenSSL Connection contract"]
ENCODED = [
    "mitmproxy.proxy.layers.tls:TLSLayer.receive_data", "mitmproxy.proxy.layers.tls:TLSLayer.send_data", "mitmproxy.proxy.layers.tls:TLSLayer.tls_interact",
    "mitmproxy.proxy.layers.tls:TLSLayer.receive_close", "mitmproxy.proxy.layers.tls:TLSLayer.receive_handshake_data", "mitmproxy.proxy.layers.tls:TLSLayer.start_tls",
    "mitmproxy.proxy.layers.tls:ClientTLSLayer.receive_handshake_data", "mitmproxy.proxy.layers.tls:ServerTLSLayer.start_handshake",
    "mitmproxy.proxy.layers.tls:ServerTLSLayer.event_to_child",
    "mitmproxy.proxy.tunnel:TunnelLayer._handle_event", "mitmproxy.proxy.tunnel:TunnelLayer._handshake_finished",
    "mitmproxy.proxy.tunnel:TunnelLayer.event_to_child", "mitmproxy.proxy.tunnel:TunnelLayer._handle_command",
]
STUBS = ["OpenSSL.SSL.Connection -> vf.refs.sslstub.StubConnection (installed by the tls_start_client / tls_start_server hook)"]

ROLES = ["client", "server-opened-by-child", "server-already-open"]


class Trigger(events.Event):
    """tells the recorder child to send `data` on its connection"""

    def __init__(self, data):
        self.data = data

    def __repr__(self):
        return f"Trigger({self.data!r})"


class Child(layer.Layer):
    def __init__(self, ctx, conn, open_first):
        super().__init__(ctx)
        self.conn, self.open_first = conn, open_first
        self.log = []

    def _handle_event(self, ev):
        if isinstance(ev, events.Start):
            self.log.append(("start",))
            if self.open_first:
                err = yield commands.OpenConnection(self.conn)
                self.log.append(("opened", err))
        elif isinstance(ev, events.DataReceived):
            self.log.append(("data", ev.connection, bytes(ev.data)))
        elif isinstance(ev, events.ConnectionClosed):
            self.log.append(("closed", ev.connection))
        elif isinstance(ev, Trigger):
            self.log.append(("sent", ev.data))
            yield commands.SendData(self.conn, ev.data)
        else:
            self.log.append(("other", type(ev).__name__))


_OPTS = None
_HELLO = None


def _opts():
    global _OPTS
    if _OPTS is None:
        _OPTS = sansio.make_options()
    return _OPTS


def _client_hello_wire():
    global _HELLO
    if _HELLO is None:
        body, _ = T.hello_body(suites=(0x1301,), extensions=[("sni", [(0, list(b"example.com"))])])
        _HELLO = bytes(T.split_records(T.handshake(body), []))
    return _HELLO


def _setup(role, max_fragment):
    ctx = sansio.make_context(_opts())
    stub = {}
    if role == "client":
        top = ltls.ServerTLSLayer(ctx)
        tl = ltls.ClientTLSLayer(ctx)
        top.child_layer = tl
        conn = ctx.client
        child = Child(ctx, conn, False)
    else:
        ctx.server.address = ("example.com", 443)
        ctx.server.sni = "example.com"
        top = tl = ltls.ServerTLSLayer(ctx)
        conn = ctx.server
        child = Child(ctx, conn, role == "server-opened-by-child")
    tl.child_layer = child
    d = sansio.Driver(top, ctx)

    def on_hook(hook):
        if isinstance(hook, (ltls.TlsStartClientHook, ltls.TlsStartServerHook)):
            sc = S.StubConnection("accept" if isinstance(hook, ltls.TlsStartClientHook) else "connect", max_fragment=max_fragment)
            hook.data.ssl_conn = sc
            stub["conn"] = sc
        return True

    d.on_hook = on_hook
    if role == "server-already-open":
        from mitmproxy.connection import ConnectionState

        ctx.server.state = ConnectionState.OPEN
        ctx.server.timestamp_start = 1700000001.0
        ctx.server.peername = ctx.server.address
        ctx.server.sockname = ("127.0.0.1", 40000)
    d.start()
    if role == "client":
        d.data(conn, _client_hello_wire())
    return ctx, d, tl, child, conn, stub


def _compositions(n):
    if n == 0:
        return [[]]
    out = []
    for first in range(1, n + 1):
        for rest in _compositions(n - first):
            out.append([first] + rest)
    return out


def _check_progress(X, child, conn, plaintext, kp):
    """at any moment: what the child saw is a prefix of what the peer sent, data only after Start, nothing after a close"""
    seen = b""
    started = closed = False
    for e in child.log:
        if e[0] == "start":
            started = True
        elif e[0] == "data":
            X.check(started, f"{kp}/data-before-start", "child got DataReceived before its Start event")
            X.check(e[1] is conn, f"{kp}/wrong-connection", f"DataReceived for {e[1]!r}")
            X.check(not closed, f"{kp}/data-after-close", f"DataReceived {e[2]!r} after ConnectionClosed")
            X.check(len(e[2]) > 0, f"{kp}/empty-data-event", "DataReceived with empty payload")
            seen += e[2]
        elif e[0] == "closed":
            X.check(started, f"{kp}/close-before-start", "child got ConnectionClosed before its Start event")
            X.check(not closed, f"{kp}/closed-twice", f"second ConnectionClosed delivered to the child; log={child.log}")
            closed = True
    X.check(plaintext.startswith(seen), f"{kp}/inbound-corrupted",
            f"child saw {seen!r}, which is not a prefix of the plaintext sent {plaintext!r} (duplicated / reordered / altered)")
    return seen, closed


def h_transparency(X, *, nmax, max_cuts, dense, sends_max, sends_min=0, roles=ROLES, tickets=True, fragments=(1, 16384), coarse=False,
                   endings=("open", "close_notify", "close_notify+tcp-close", "tcp-close")):
    role = X.choose("role", roles)
    kp = "C14/" + ("client" if role == "client" else "server")
    # ---- what the peer sends after the handshake
    n = X.choose("plaintext_len", nmax + 1)
    sizes = X.choose("record_sizes", _compositions(n))
    plaintext = bytes(range(0x41, 0x41 + n))
    chunks, pos = [], 0
    for s in sizes:
        chunks.append(plaintext[pos : pos + s])
        pos += s
    parts = [S.record(S.APPDATA, c) for c in chunks]
    if tickets:
        spots = range(len(parts) + 1) if tickets == "all" else sorted({0, len(parts)})
        tk = X.choose("post_handshake_record", ["none"] + [f"before-{i}" for i in spots])
        if tk != "none":
            parts.insert(int(tk.split("-")[1]), S.Peer.ticket())
            X.reach("post-handshake-record")
    if tickets == "all" and n and X.boolean("empty_record_first"):
        parts.insert(0, S.record(S.APPDATA, b""))
    ending = X.choose("ending", list(endings))
    if ending.startswith("close_notify"):
        parts.append(S.Peer.close_notify())
    send_chunks = [bytes([0x61 + i]) * (i + 1) for i in range(X.choose("child_sends", list(range(sends_min, sends_max + 1))))]
    max_fragment = X.choose("max_fragment", list(fragments)) if send_chunks else fragments[-1]

    ctx, d, tl, child, conn, stub = _setup(role, max_fragment)
    X.check("conn" in stub, f"{kp}/harness/no-stub", "tls_start hook was not fired")
    sc = stub["conn"]
    flight = S.Peer.finished_flight(sc.role)
    wire = flight + b"".join(parts)
    total = len(wire)
    # ---- TCP segmentation of the peer's bytes (from its last handshake flight on)
    ncuts = X.choose("cuts", max_cuts + 1)
    cuts, lo = [], 1
    # coarse menu: inside / at the end of the last handshake flight, inside each record header, at each record boundary, before the last byte
    marks, off = {len(flight) - 1, len(flight), total - 1}, len(flight)
    for p_ in parts:
        marks |= {off + 3, off + 5, off + len(p_)}
        off += len(p_)
    for i in range(ncuts):
        X.assume(lo < total)
        if coarse:
            cand = sorted(p for p in marks if lo <= p < total)
        elif dense or i == 0:
            cand = list(range(lo, total))
        else:
            cand = sorted({p for p in (lo, lo + 1, lo + 4, lo + 5, total - 1) if lo <= p < total})
        X.assume(bool(cand))
        c = X.choose(f"cut{i}", cand)
        cuts.append(c)
        lo = c + 1
    edges = [0] + cuts + [total]
    segs = [wire[a:b] for a, b in zip(edges, edges[1:])]
    if not cuts or cuts[0] > len(flight):
        X.reach("data-in-same-segment-as-last-flight")
    # ---- schedule: inbound segments and child sends interleaved in solver-chosen order
    si = ki = 0
    sent_by_child = b""
    while si < len(segs) or ki < len(send_chunks):
        if si < len(segs) and ki < len(send_chunks):
            act = X.choose("next", ["segment", "send"])
        else:
            act = "segment" if si < len(segs) else "send"
        if act == "segment":
            d.data(conn, segs[si])
            si += 1
        else:
            d.feed(Trigger(send_chunks[ki]))
            sent_by_child += send_chunks[ki]
            ki += 1
            if si < len(segs):
                X.reach("send-between-inbound-segments")
        _check_progress(X, child, conn, plaintext, kp)
    if ending.endswith("tcp-close"):
        d.close(conn)
    # ---- verdict
    X.check(sc.done, f"{kp}/harness/handshake-incomplete", "stub handshake did not finish")
    seen, closed = _check_progress(X, child, conn, plaintext, kp)
    X.check(seen == plaintext, f"{kp}/inbound-lost",
            f"peer sent {plaintext!r} in records {sizes} (segments cut at {cuts}), child saw only {seen!r}; log={child.log}")
    if ending == "open":
        X.check(not closed, f"{kp}/spurious-close", "ConnectionClosed without close_notify or TCP close")
    else:
        X.reach(ending)
        X.check(closed, f"{kp}/close-not-delivered", f"{ending}: the child never got ConnectionClosed; log={child.log}")
    # outbound: decode what was written to the wire
    hs, app, cn, rest = S.Peer.decode(d.sent_to(conn))
    X.check(rest == b"", f"{kp}/outbound-partial-record", f"undecodable trailing bytes {rest!r} on the wire")
    X.check(app == sent_by_child, f"{kp}/outbound-mismatch", f"child sent {sent_by_child!r}, peer decodes {app!r}")
    if sent_by_child:
        X.reach("child-sent")
    if role != "client":
        X.check(("opened", None) in child.log or role == "server-already-open", f"{kp}/open-not-completed", f"OpenConnection never completed: {child.log}")
    X.reach("end")
    X.reach(role)
    if n:
        X.reach("data")


def validate_stub():
    """the stub against the real OpenSSL on the contract points the plumbing relies on (memory-BIO TLS 1.3 pair)"""
    from OpenSSL import SSL, crypto

    n = 0
    # real pair
    key = crypto.PKey()
    key.generate_key(crypto.TYPE_RSA, 2048)
    cert = crypto.X509()
    cert.get_subject().CN = "stub.test"
    cert.set_serial_number(1)
    cert.gmtime_adj_notBefore(0)
    cert.gmtime_adj_notAfter(3600)
    cert.set_issuer(cert.get_subject())
    cert.set_pubkey(key)
    cert.sign(key, "sha256")
    sctx = SSL.Context(SSL.TLS_SERVER_METHOD)
    sctx.use_privatekey(key)
    sctx.use_certificate(cert)
    cctx = SSL.Context(SSL.TLS_CLIENT_METHOD)

    def pair(real):
        if real:
            s, c = SSL.Connection(sctx), SSL.Connection(cctx)
            s.set_accept_state()
            c.set_connect_state()
        else:
            s, c = S.StubConnection("accept"), S.StubConnection("connect")
        return s, c

    def pump(a, b):
        moved = False
        for x, y in ((a, b), (b, a)):
            try:
                y.bio_write(x.bio_read(65535))
                moved = True
            except SSL.WantReadError:
                pass
        return moved

    def raises(f, *a):
        try:
            f(*a)
        except Exception as e:  # noqa
            return type(e).__name__
        return None

    for real in (True, False):
        s, c = pair(real)
        assert raises(s.recv, 10) == "WantReadError"
        assert raises(s.bio_read, 10) == "WantReadError"
        for _ in range(10):
            for x in (c, s):
                try:
                    x.do_handshake()
                except SSL.WantReadError:
                    pass
            if not pump(c, s):
                break
        c.do_handshake()
        s.do_handshake()
        # drain post-handshake messages
        assert raises(c.recv, 10) == "WantReadError", (real, "client recv after handshake")
        # two writes = two records; recv returns them one at a time
        c.sendall(b"ab")
        c.sendall(b"cd")
        wire = c.bio_read(65535)
        assert raises(c.bio_read, 10) == "WantReadError"
        # deliver in two odd pieces: nothing readable until a record is complete
        s.bio_write(wire[:3])
        assert raises(s.recv, 65535) == "WantReadError", (real, "partial record")
        s.bio_write(wire[3:])
        assert s.recv(65535) == b"ab", real
        assert s.recv(1) == b"c" and s.recv(65535) == b"d", real
        assert raises(s.recv, 65535) == "WantReadError"
        assert s.get_shutdown() == 0
        # close_notify
        if real:
            c.shutdown()
        else:
            c.shutdown_()
        s.bio_write(c.bio_read(65535))
        assert raises(s.recv, 65535) == "ZeroReturnError", real
        assert s.get_shutdown() & SSL.RECEIVED_SHUTDOWN
        assert raises(s.recv, 65535) == "ZeroReturnError", real
        # writing after the peer's close_notify still works (half-close)
        s.sendall(b"xy")
        c.bio_write(s.bio_read(65535))
        assert raises(s.bio_write, b"") is not None
        n += 12
    return n


def obligations(tier):
    quick = tier == "quick"
    return [
        Concrete("stub-validation", validate_stub,
                 bounds="the stub and a real OpenSSL TLS 1.3 memory-BIO pair answer identically on the contract points used by TLSLayer "
                        "(WantReadError on partial records, one record per recv, ZeroReturnError + RECEIVED_SHUTDOWN on close_notify, half-close writes)",
                 encoded=[]),
        Symx("inbound-segmentation", lambda X: h_transparency(X, nmax=2 if quick else 3, max_cuts=2, dense=not quick, sends_max=0, tickets=True if quick else "all"),
             bounds=f"3 roles x plaintext of 0..{2 if quick else 3} bytes in every record split x post-handshake handshake record before the first / after the last record (thorough: every position, optional empty record) "
                    f"x 4 endings; peer bytes (last handshake flight + records + close_notify) cut into <= 3 TCP segments "
                    f"(first cut anywhere, second {'from 5 positions after the first' if quick else 'anywhere'})",
             encoded=ENCODED, must_reach=["end", "data", "data-in-same-segment-as-last-flight", "post-handshake-record", "close_notify", "close_notify+tcp-close", "tcp-close"] + ROLES,
             stubs=STUBS, parallel_depth=5),
        Symx("interleaving", lambda X: h_transparency(X, nmax=2, max_cuts=2 if quick else 3, dense=False, coarse=True, sends_min=1, sends_max=2, tickets=False if quick else "all",
                                                      endings=("open", "close_notify+tcp-close", "tcp-close") if quick else ("open", "close_notify", "close_notify+tcp-close", "tcp-close")),
             bounds=f"3 roles x plaintext 0..2 bytes in every record split x {3 if quick else 4} endings x child sends 1..2 chunks (1 and 2 bytes) at every position between inbound "
                    f"segments x stub fragment size 1/16384; <= {3 if quick else 4} TCP segments, cuts from the structural menu (inside / at the end of the last handshake "
                    "flight, inside each record header, at each record boundary, before the last byte)",
             encoded=ENCODED, must_reach=["end", "child-sent", "send-between-inbound-segments", "data-in-same-segment-as-last-flight"] + ROLES,
             stubs=STUBS, parallel_depth=5),
    ]
