"""C03 — every HTTP flow has an ordered hook lifecycle and exactly one outcome.

Sans-io driver over the real HttpLayer(regular) + HttpStream + Http1Server/Http1Client.  Solver-enumerated
selectors (engine symx, native execution per path) choose: the exchange kind (GET / POST with
Content-Length / POST chunked / head failing validation / body over body_size_limit / two pipelined GETs),
the response kind, whether OpenConnection fails, one fault (client close, server close, protocol error from
the client, protocol error from the server) at any position of the event script, what the "addon" does in
every hook that fires (pass, kill, set a response, stream=True, intercept = withhold the hook's completion
while the next event arrives), and the order of the final connection closes.  Afterwards every connection
is closed and every withheld hook is resumed.
Oracle: a monitor over the observed StartHook sequence per flow, written from the property sentence.
"""
from mitmproxy import http
from mitmproxy.connection import ConnectionState

from vf import sansio
from vf.ob import Symx

LEVEL = "model_checking"
ASSUMPTIONS = [
    "addon actions are the documented ones: flow.kill() (only when flow.killable), flow.response = Response.make(...), message.stream = True, "
    "intercept = the hook's completion is withheld until the next event (or the fault) has been delivered",
    "the server sends response bytes only after it has received the request head (causal order); when the request is streamed it may answer before the body is complete",
    "all withheld hooks are resumed and both sides closed before the end-of-life check (the property speaks about the state once all connections are closed)",
]
OUTSIDE = ["HTTP/2 and HTTP/3 front-ends beyond the pending-connect obligation (ordering there is covered by the C05 harness)", "CONNECT tunnels and protocol upgrades (excluded by the property)",
           "more than one fault per exchange in the quick tier", "upstream/transparent/reverse modes"]
ENCODED = [
    "mitmproxy.proxy.layers.http:HttpStream.state_wait_for_request_headers", "mitmproxy.proxy.layers.http:HttpStream.state_consume_request_body",
    "mitmproxy.proxy.layers.http:HttpStream.state_stream_request_body", "mitmproxy.proxy.layers.http:HttpStream.state_wait_for_response_headers",
    "mitmproxy.proxy.layers.http:HttpStream.state_consume_response_body", "mitmproxy.proxy.layers.http:HttpStream.state_stream_response_body",
    "mitmproxy.proxy.layers.http:HttpStream.send_response", "mitmproxy.proxy.layers.http:HttpStream.flow_done",
    "mitmproxy.proxy.layers.http:HttpStream.handle_protocol_error", "mitmproxy.proxy.layers.http:HttpStream.check_killed",
    "mitmproxy.proxy.layers.http:HttpStream.check_body_size", "mitmproxy.proxy.layers.http:HttpStream.check_invalid",
    "mitmproxy.proxy.layers.http:HttpStream.make_server_connection", "mitmproxy.proxy.layers.http:HttpLayer.get_connection",
    "mitmproxy.proxy.layers.http:HttpLayer.register_connection", "mitmproxy.proxy.layers.http._http1:Http1Server.wait",
    "mitmproxy.proxy.layers.http._http1:Http1Client.read_headers", "mitmproxy.proxy.layers.http._http1:Http1Connection.read_body",
    "mitmproxy.proxy.layer:Layer.handle_event",
]

_OPTS = {}


def _opts(limit):
    if limit not in _OPTS:
        _OPTS[limit] = sansio.make_options(validate_inbound_headers=True, **({"body_size_limit": "5"} if limit else {}))
    return _OPTS[limit]


H = b"Host: h\r\n"
EXCHANGES = {
    # name: (client pieces, needs body_size_limit)
    "get": ([b"GET http://h/0 HTTP/1.1\r\n" + H + b"\r\n"], False),
    "post-cl": ([b"POST http://h/0 HTTP/1.1\r\n" + H + b"Content-Length: 3\r\n\r\na", b"bc"], False),
    "post-chunked": ([b"POST http://h/0 HTTP/1.1\r\n" + H + b"Transfer-Encoding: chunked\r\n\r\n2\r\nab\r\n", b"1\r\nc\r\n0\r\n\r\n"], False),
    "invalid-head": ([b"POST http://h/0 HTTP/1.1\r\n" + H + b"Content-Length: 3\r\nTransfer-Encoding: chunked\r\n\r\n", b"abc"], False),
    "oversize-request": ([b"POST http://h/0 HTTP/1.1\r\n" + H + b"Content-Length: 10\r\n\r\n01234", b"56789"], True),
    "oversize-chunked-request": ([b"POST http://h/0 HTTP/1.1\r\n" + H + b"Transfer-Encoding: chunked\r\n\r\n4\r\n0123\r\n", b"4\r\n4567\r\n0\r\n\r\n"], True),
    "pipelined-gets": ([b"GET http://h/0 HTTP/1.1\r\n" + H + b"\r\nGET http://h/1 HTTP/1.1\r\n" + H + b"\r\n"], False),
}
RESPONSES = {
    # name: server pieces (None = server closes)
    "cl": [b"HTTP/1.1 200 OK\r\nContent-Length: 2\r\n\r\nh", b"i"],
    "chunked": [b"HTTP/1.1 200 OK\r\nTransfer-Encoding: chunked\r\n\r\n1\r\nh\r\n", b"1\r\ni\r\n0\r\n\r\n"],
    "until-close": [b"HTTP/1.1 200 OK\r\n\r\nh", b"i", None],
    "invalid-head": [b"HTTP/1.1 200 OK\r\nContent-Length: 2\r\nContent-Length: 3\r\n\r\nhi"],
    "oversize": [b"HTTP/1.1 200 OK\r\nContent-Length: 10\r\n\r\n01234", b"56789"],
    "oversize-chunked": [b"HTTP/1.1 200 OK\r\nTransfer-Encoding: chunked\r\n\r\n4\r\n0123\r\n", b"4\r\n4567\r\n0\r\n\r\n"],
}
FAULTS = ["none", "client-close", "server-close", "client-protocol-error", "server-protocol-error"]
POLICIES = {
    "requestheaders": ["pass", "kill", "set-response", "stream", "intercept"],
    "request": ["pass", "kill", "set-response", "intercept"],
    "responseheaders": ["pass", "kill", "stream", "intercept"],
    "response": ["pass", "kill", "intercept"],
    "error": ["pass"],
}


def h_lifecycle(X, cfg):
    from mitmproxy.proxy.layers import http as mhttp

    xname = X.choose("exchange", cfg["exchanges"])
    cpieces, limit_needed = EXCHANGES[xname]
    limit = limit_needed or (cfg["resp_limit"] and X.boolean("body_size_limit"))
    ctx = sansio.make_context(_opts(bool(limit)))
    d = sansio.Driver(mhttp.HttpLayer(ctx, mhttp.HTTPMode.regular), ctx)
    flows = []  # [flow, [hook names], [policies]]
    nonpass = [0]
    held = []

    def on_hook(h):
        f = h.args()[0]
        rec = [r for r in flows if r[0] is f]
        if not rec:
            rec = [[f, [], []]]
            flows.append(rec[0])
        rec = rec[0]
        rec[1].append(h.name)
        menu = POLICIES.get(h.name, ["pass"])
        if nonpass[0] >= cfg["max_actions"]:
            menu = ["pass"]
        if not cfg["intercept"]:
            menu = [m for m in menu if m != "intercept"]
        pol = X.choose("policy", menu) if len(menu) > 1 else "pass"
        rec[2].append(h.name + ":" + pol)
        if pol != "pass":
            nonpass[0] += 1
        if pol == "kill":
            if f.killable:
                f.kill()
                X.reach("killed")
        elif pol == "set-response":
            f.response = http.Response.make(200, b"made-up")
            X.reach("response-set")
        elif pol == "stream":
            (f.request if h.name == "requestheaders" else f.response).stream = True
            X.reach("streamed")
        elif pol == "intercept":
            held.append(h)
            X.reach("intercepted")
            return False
        return True

    d.on_hook = on_hook
    d.on_open = lambda cmd: None if X.choose("open", ["ok", "fail"]) == "ok" else "connection refused"
    d.start()

    # event script: client pieces, then server pieces (chosen once the server has a request head);
    # a streamed request may be answered before its body is complete ("early")
    fault = X.choose("fault", cfg["faults"])
    fired = [fault == "none"]
    state = {"ci": 0, "resp": None, "si": 0, "served": 0, "client_gone": False}

    def srv():
        for s in d.opened:
            if s.state & ConnectionState.CAN_READ and d.sent_to(s):
                return s
        return None

    def resume_held():
        for h in list(held):
            held.remove(h)
            if h in d.pending_hooks:
                d.complete_hook(h)

    def maybe_fault(last=False):
        """solver decides whether the fault happens at this position of the script (at the last position it must)"""
        if fired[0]:
            return False
        if fault in ("server-close", "server-protocol-error") and srv() is None:
            return False
        if fault in ("client-close", "client-protocol-error") and not (ctx.client.state & ConnectionState.CAN_READ):
            return False
        if not last and not X.boolean("fault_here"):
            return False
        fired[0] = True
        X.reach("fault:" + fault)
        if fault == "client-close":
            d.close(ctx.client)
            state["client_gone"] = True
        elif fault == "server-close":
            d.close(srv())
        elif fault == "client-protocol-error":
            d.data(ctx.client, b"\x00\x01 garbage\r\n\r\n")
        elif fault == "server-protocol-error":
            d.data(srv(), b"\x00\x01 garbage\r\n\r\n")
        resume_held()
        return True

    def server_step():
        """deliver the next piece of the current response, if the server has something to answer"""
        s = srv()
        if s is None:
            return False
        if state["resp"] is None:
            # number of request heads the server has seen so far
            heads = sum(d.sent_to(c).count(b" HTTP/1.1\r\n") for c in d.opened)
            if state["served"] >= heads:
                return False
            kinds = cfg["responses"] + (["oversize", "oversize-chunked"] if limit and cfg["resp_limit"] else [])
            state["resp"] = list(RESPONSES[X.choose("response", kinds)])
            state["si"] = 0
        piece = state["resp"][state["si"]]
        state["si"] += 1
        if piece is None:
            d.close(s)
        else:
            d.data(s, piece)
        if state["si"] >= len(state["resp"]):
            state["resp"] = None
            state["served"] += 1
        resume_held()
        return True

    def client_step():
        if state["ci"] >= len(cpieces) or state["client_gone"] or not (ctx.client.state & ConnectionState.CAN_READ):
            return False
        d.data(ctx.client, cpieces[state["ci"]])
        state["ci"] += 1
        resume_held()
        return True

    try:
        steps = 0
        while steps < cfg["max_steps"]:
            steps += 1
            maybe_fault()
            # a streamed request can be answered early: let the solver order client and server pieces then
            can_c = state["ci"] < len(cpieces) and not state["client_gone"] and bool(ctx.client.state & ConnectionState.CAN_READ)
            early = can_c and state["ci"] > 0 and srv() is not None
            if early and X.boolean("server_answers_early"):
                X.reach("early-response")
                if server_step():
                    continue
            if client_step():
                continue
            if server_step():
                continue
            break
        maybe_fault(last=True)
        resume_held()
        # everything is closed
        order = ["client", "servers"]
        if d.opened and any(s.state is not ConnectionState.CLOSED for s in d.opened) and ctx.client.state is not ConnectionState.CLOSED:
            if X.choose("close_order", ["client-first", "servers-first"]) == "servers-first":
                order.reverse()
        for who in order:
            if who == "client":
                d.close(ctx.client)
            else:
                for s in list(d.opened):
                    d.close(s)
            resume_held()
        while d.pending_hooks:
            d.complete_hook()
    except AssertionError as e:
        # an assertion inside the proxy core = "mitmproxy has crashed" for this connection; classed by the failed assertion
        import re
        import traceback

        if "/mitmproxy/" not in traceback.extract_tb(e.__traceback__)[-1].filename:
            raise
        X.reach("layer-assertion")
        X.fail("C03/layer-assertion/" + re.sub(r"\(.*?\)", "", str(e)).strip(". ").replace(" ", "-")[:110],
               f"exchange {xname}, fault {fault}, addon actions {[r[2] for r in flows]}: {e}")
    X.reach("ran")

    # ---- monitor (oracle), written from the property sentence
    for f, names, pols in flows:
        what = f"exchange {xname}, fault {fault}, hooks {names}, addon actions {pols}"
        if f.request.method == "CONNECT" or (f.response is not None and f.response.status_code == 101):
            continue
        tag = "fault=" + fault  # violation class = failed clause + fault kind (addon actions are in the message)
        acted = {p.split(":")[1] for p in pols}
        X.check(names[0] == "requestheaders", f"C03/first-hook-not-requestheaders/{tag}", what)
        X.check(names.count("requestheaders") == 1, f"C03/requestheaders-twice/{tag}", what)
        X.check(names.count("request") <= 1, f"C03/request-twice/{tag}", what)
        X.check(names.count("responseheaders") <= 1, f"C03/responseheaders-twice/{tag}", what)
        if "responseheaders" in names and "response" in names:
            X.check(names.index("responseheaders") < names.index("response"), f"C03/response-before-responseheaders/{tag}", what)
        X.check(not ("response" in names and "error" in names), f"C03/both-response-and-error/{tag}", what)
        if "responseheaders" in names and not f.request.stream:
            X.check("request" in names and names.index("request") < names.index("responseheaders"), f"C03/responseheaders-before-request-unstreamed/{tag}", what)
        # once everything is closed: exactly one outcome, not live
        X.check(("response" in names) != ("error" in names), f"C03/no-outcome/{tag}", what + f"; flow.error={f.error}, response={f.response}")
        X.check(names.count("response") + names.count("error") == 1, f"C03/outcome-hook-fired-twice/{tag}", what)
        X.check(f.live is False, f"C03/still-live-after-close/{tag}", what + f"; live={f.live}")
        if "response" in names:
            X.reach("outcome-response")
        else:
            X.reach("outcome-error")
        if "stream" in acted:
            X.reach("streamed-flow-checked")
    if len(flows) >= 2:
        X.reach("two-flows")
    if not flows:
        X.reach("no-flow")


def h_h2_pending_connect(X):
    """HTTP/2 client: 1-3 requests arrive while the (shared) upstream connection attempt is still pending; the attempt then fails,
    or succeeds and the server closes without answering.  Every flow must end with exactly one outcome and not stay live."""
    import h2.config
    import h2.connection

    from mitmproxy.proxy.layers import http as mhttp

    ctx = sansio.make_context(_opts(False))
    ctx.client.alpn = b"h2"
    d = sansio.Driver(mhttp.HttpLayer(ctx, mhttp.HTTPMode.regular), ctx)
    flows = []

    def on_hook(h):
        f = h.args()[0]
        if isinstance(f, http.HTTPFlow):
            for rec in flows:
                if rec[0] is f:
                    rec[1].append(h.name)
                    break
            else:
                flows.append((f, [h.name]))
        return True

    d.on_hook = on_hook
    d.defer_open = True
    d.start()
    cli = h2.connection.H2Connection(h2.config.H2Configuration(client_side=True, header_encoding=False))
    cli.initiate_connection()
    d.data(ctx.client, cli.data_to_send())
    cli.receive_data(bytes(d.sent_to(ctx.client)))
    k = 1 + X.choose("streams-1", 3)
    together = X.boolean("one_segment")
    same_host = X.boolean("same_destination")
    for i in range(k):
        host = b"example.com" if same_host or i == 0 else b"other%d.example" % i
        cli.send_headers(2 * i + 1, [(b":method", b"GET"), (b":scheme", b"http"), (b":path", b"/%d" % i), (b":authority", host)], end_stream=True)
        if not together:
            d.data(ctx.client, cli.data_to_send())
    if together:
        d.data(ctx.client, cli.data_to_send())
    X.reach("streams-%d" % k)
    outcome = X.choose("connect", ["refused", "connected-then-closed"])
    n_open = len(d.pending_opens)
    X.check(n_open >= 1, "C03/h2-pending-connect/no-connection-attempt", f"{k} requests, no OpenConnection")
    for cmd in list(d.pending_opens):
        d.pending_opens.remove(cmd)
        d._finish_open(cmd, "connection refused" if outcome == "refused" else None)
    d.defer_open = False
    for cmd in list(d.pending_opens):  # attempts issued while the first ones were being answered
        d.pending_opens.remove(cmd)
        d._finish_open(cmd, "connection refused" if outcome == "refused" else None)
    if outcome != "refused":
        for srv in list(d.opened):
            if srv.state != ConnectionState.CLOSED:
                d.close(srv)
    d.close(ctx.client)
    for srv in list(d.opened):
        if srv.state != ConnectionState.CLOSED:
            d.close(srv)
    X.reach("ran")
    X.check(len(flows) == k, "C03/h2-pending-connect/flow-count", f"{k} requests, {len(flows)} flows fired requestheaders")
    for f, names in flows:
        what = f"{k} h2 streams ({'one segment' if together else 'one segment each'}, {'same' if same_host else 'different'} destination), connect {outcome}: {f.request.path} hooks {names}"
        tag = "h2-pending-connect/" + outcome
        X.check(names[0] == "requestheaders" and names.count("request") <= 1, f"C03/hook-order/{tag}", what)
        X.check(not ("response" in names and "error" in names), f"C03/both-response-and-error/{tag}", what)
        X.check(names.count("response") + names.count("error") == 1, f"C03/no-outcome/{tag}", what + f"; flow.error={f.error}")
        X.check(f.live is False, f"C03/still-live-after-close/{tag}", what + f"; live={f.live}")
        X.reach("outcome-error" if "error" in names else "outcome-response")


def obligations(tier):
    q = tier == "quick"
    base = {"exchanges": ["get", "post-cl", "post-chunked", "invalid-head", "oversize-request", "oversize-chunked-request"], "responses": ["cl", "chunked", "until-close", "invalid-head"],
            "faults": FAULTS, "max_actions": 2 if q else 3, "intercept": True, "resp_limit": True, "max_steps": 12}
    if not q:
        base["exchanges"] = base["exchanges"] + ["pipelined-gets"]
    desc = (f"exchange in {base['exchanges']}, response in {base['responses']} (+ over-limit responses when body_size_limit=5 is on), OpenConnection ok/fail, "
            f"one fault from {FAULTS} at every position of the event script (<= 2 client pieces, <= 3 server pieces incl. close), "
            f"early response to a streamed request, addon policy per fired hook from {POLICIES} with at most {base['max_actions']} non-pass actions per run, final close order")
    return [
        Symx("lifecycle" if q else "lifecycle-3-actions", lambda X: h_lifecycle(X, base), bounds=desc, encoded=ENCODED,
             must_reach=["ran", "outcome-response", "outcome-error", "killed", "response-set", "streamed", "intercepted", "early-response", "streamed-flow-checked",
                         "fault:client-close", "fault:server-close", "fault:client-protocol-error", "fault:server-protocol-error"] + ([] if q else ["two-flows"]),
             parallel_depth=4),
        Symx("h2-pending-connect", h_h2_pending_connect,
             bounds="HTTP/2 client, 1-3 GET streams (one segment or one each; same or different destinations) arriving while the upstream connection attempt is pending; "
                    "the attempt is refused, or succeeds and the server closes without answering; then everything is closed",
             encoded=ENCODED, must_reach=["ran", "streams-3", "outcome-error"]),
    ]
