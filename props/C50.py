"""C50 — content views always render safely; the DNS view re-encodes faithfully.

(i)  wrapper totality: the real `contentviews.prettify_message` is run with a *stub view* (registered in a private
     registry) that raises one of several exception types or returns text containing a solver-chosen character,
     selected explicitly and automatically, on every message kind: it must return, and the text must be free of
     control characters.  (The escaping primitive itself is decided over all 1.1 M code points by the CrossHair
     kernels of props/chx/c49_kernel.py, which this property re-uses.)
(ii) every registered real view (Python and Rust ones) renders a format-specific seed body into which 0-2
     solver-chosen bytes are spliced at a solver-chosen offset; explicit and automatic selection: no exception,
     no control characters.
(iii) DNS messages assembled from selectors (header bits, questions, records of every rendered type):
     unpack(reencode(prettify(m))) has the same header fields, questions and records.
"""
import io
import os
import signal
import struct
import time
import unicodedata
import zipfile

from vf.ob import Symx, Chx

LEVEL = "model_checking"
ASSUMPTIONS = [
    "control character = Unicode general category Cc (C0, DEL, C1); tab, newline, CR allowed",
    "views implemented in Rust (mitmproxy_rs: hex dump, hex stream, msgpack, protobuf, grpc) run natively on the concrete bytes each path selects",
    "stub view = a Contentview whose prettify() raises / returns the chosen text; it stands for an arbitrary third-party view",
    "'does not return' is decided by a watchdog: the rendering thread neither runs nor waits for a CPU for 3 s (blocked on a lock) or burns > 20 CPU seconds",
]
OUTSIDE = ["bodies that differ from the seeds in more than 2 spliced bytes", "views returning non-str objects (violates the Contentview contract)",
           "run time / catastrophic regex behaviour of a view", "interactive re-encoding of views other than DNS"]
ENCODED = ["mitmproxy.contentviews:prettify_message", "mitmproxy.contentviews:reencode_message", "mitmproxy.contentviews._registry:ContentviewRegistry.get_view",
           "mitmproxy.contentviews._utils:make_metadata", "mitmproxy.contentviews._utils:get_data", "mitmproxy.contentviews._view_dns:DNSContentview.prettify",
           "mitmproxy.contentviews._view_dns:DNSContentview.reencode", "mitmproxy.utils.strutils:escape_control_characters",
           "mitmproxy.dns:DNSMessage.unpack", "mitmproxy.dns:DNSMessage.to_json", "mitmproxy.dns:DNSMessage.from_json", "mitmproxy.proxy.layers.dns:pack_message"]

CHARS = [("nul", "\x00"), ("esc", "\x1b"), ("us", "\x1f"), ("del", "\x7f"), ("c1-pad", "\x80"), ("c1-csi", "\x9b"), ("c1-apc", "\x9f"),
         ("tab", "\t"), ("lf", "\n"), ("cr", "\r"), ("ascii", "a"), ("latin1", "é"), ("bmp", "€"), ("astral", "\U0001f600")]

_CTX = []


def _ctx():
    if not _CTX:
        from mitmproxy.test import taddons

        _CTX.append(taddons.context())
    return _CTX[0]


class _Hang(BaseException):
    """raised by the watchdog inside the call under test (BaseException: the code under test must not swallow it)"""


def _sched():
    """(cpu seconds, run-queue wait seconds) of this thread — distinguishes 'blocked' from 'starved by other processes'"""
    try:
        with open(f"/proc/self/task/{os.getpid()}/schedstat") as f:
            a, b, _ = f.read().split()
        return int(a) / 1e9, int(b) / 1e9
    except Exception:  # noqa
        return time.process_time(), 0.0


def watchdog(fn, *, blocked_s=3.0, busy_cpu_s=20.0):
    """run fn(); raise _Hang('blocked') if the thread neither ran nor waited for a CPU for `blocked_s` seconds (it sleeps on a
    lock / queue that nothing will ever release), _Hang('busy') if the call burns more than `busy_cpu_s` CPU seconds"""
    start = _sched()
    state = {"last": start, "idle": 0.0}
    tick = 0.5

    def on_tick(sig, frame):
        cpu, wait = _sched()
        lc, lw = state["last"]
        state["last"] = (cpu, wait)
        if (cpu - lc) + (wait - lw) < 0.05 * tick:
            state["idle"] += tick
        else:
            state["idle"] = 0.0
        if state["idle"] >= blocked_s:
            raise _Hang("blocked")
        if cpu - start[0] > busy_cpu_s:
            raise _Hang("busy")

    old = signal.signal(signal.SIGALRM, on_tick)
    signal.setitimer(signal.ITIMER_REAL, tick, tick)
    try:
        return fn()
    finally:
        signal.setitimer(signal.ITIMER_REAL, 0)
        signal.signal(signal.SIGALRM, old)


def _cc(text):
    return [ch for ch in text if unicodedata.category(ch) == "Cc" and ch not in "\t\n\r"]


def _judge_text(X, res, what, key_suffix):
    X.check(isinstance(res.text, str), f"C50/not-text/{key_suffix}", f"{what}: text is {type(res.text).__name__}")
    bad = _cc(res.text)
    if bad:
        only_c1 = all(0x80 <= ord(ch) <= 0x9F for ch in bad)
        X.fail(f"C50/{'c1-controls' if only_c1 else 'control'}/{key_suffix}", f"{what}: rendered text contains control characters {bad!r}: {res.text[:300]!r}")


def _message(X, kind, content, content_type=None, path=b"/p"):
    """-> (message, flow) of the given kind carrying `content`"""
    from wsproto.frame_protocol import Opcode

    from mitmproxy import http, tcp, udp, websocket
    from mitmproxy.test import tflow

    if kind in ("http-request", "http-response"):
        f = tflow.tflow(resp=True)
        f.request.data.path = path
        m = f.request if kind == "http-request" else f.response
        if content_type is None:
            m.headers.pop("content-type", None)
        else:
            m.headers["content-type"] = content_type
        m.data.content = content
        m.headers["content-length"] = str(len(content))
        return m, f
    if kind == "tcp":
        f = tflow.ttcpflow()
        m = tcp.TCPMessage(True, content)
        f.messages = [m]
        return m, f
    if kind == "udp":
        f = tflow.tudpflow()
        m = udp.UDPMessage(True, content)
        f.messages = [m]
        return m, f
    if kind in ("ws-text", "ws-binary"):
        f = tflow.twebsocketflow()
        f.request.data.path = path
        m = websocket.WebSocketMessage(Opcode.TEXT if kind == "ws-text" else Opcode.BINARY, True, content)
        f.websocket.messages.append(m)
        return m, f
    raise AssertionError(kind)


# ------------------------------------------------------------------------------------------
# (i) wrapper totality with a stub view


class _Boom(Exception):
    pass


def h_wrapper(X):
    from mitmproxy import contentviews
    from mitmproxy.contentviews import Contentview
    from mitmproxy.contentviews._registry import ContentviewRegistry

    _ctx()
    label, c = X.choose("char", CHARS)
    behaviour = X.choose("stub", ["returns-text", "raises-ValueError", "raises-KeyError", "raises-custom", "raises-AssertionError", "raises-UnicodeDecodeError",
                                  "priority-raises"])
    text = "x" + c + "y"

    class Stub(Contentview):
        name = "Stub" + c  # the name is shown in error texts

        def prettify(self, data, metadata):
            if behaviour == "returns-text" or behaviour == "priority-raises":
                return text
            if behaviour == "raises-ValueError":
                raise ValueError(text)
            if behaviour == "raises-KeyError":
                raise KeyError(text)
            if behaviour == "raises-custom":
                raise _Boom(text)
            if behaviour == "raises-AssertionError":
                raise AssertionError(text)
            b"\xff".decode("utf-8")

        def render_priority(self, data, metadata):
            if behaviour == "priority-raises":
                raise RuntimeError(text)
            return 5

    reg = ContentviewRegistry()
    reg.register(contentviews.raw)
    stub = Stub()
    reg.register(stub)
    kind = X.choose("message", ["http-request", "http-response", "tcp", "udp", "ws-text", "ws-binary"])
    body = X.choose("body", [b"", b"plain", ("b" + c + "d").encode("utf-8"), b"\xff\xfe" + c.encode("utf-8", "replace")])
    m, f = _message(X, kind, body, "text/plain")
    missing = kind.startswith("http") and X.boolean("content_missing")
    if missing:
        m.data.content = None
    select = X.choose("select", ["auto", "explicit", "unknown-name"])
    view_name = {"auto": "auto", "explicit": stub.name, "unknown-name": "nope" + c}[select]
    try:
        res = contentviews.prettify_message(m, f, view_name, registry=reg)
    except Exception as e:  # noqa
        X.fail(f"C50/wrapper-raises/{behaviour}", f"prettify_message raised {type(e).__name__}: {e!r} (stub {behaviour}, {select}, {kind}, char {label})")
    X.reach("returned")
    if behaviour.startswith("raises") and not missing:
        X.reach("error-path" if select == "explicit" else "fallback-path")
    _judge_text(X, res, f"stub {behaviour} / {select} / {kind} / body {body!r} / char {label}", "wrapper")
    if c in res.text and unicodedata.category(c) != "Cc":
        X.reach("printable-shown")


# ------------------------------------------------------------------------------------------
# (ii) real views


def _zip_seed():
    b = io.BytesIO()
    with zipfile.ZipFile(b, "w") as z:
        z.writestr("a.txt", "hello")
        z.writestr("dir/b.bin", b"\x00\x01")
    return b.getvalue()


def _dns_seed():
    def name(labels):
        return b"".join(bytes([len(l)]) + l for l in labels) + b"\0"

    q = name([b"host", b"example"]) + struct.pack("!HH", 1, 1)
    a1 = name([b"host", b"example"]) + struct.pack("!HHIH", 1, 1, 60, 4) + b"\x01\x02\x03\x04"
    txt = b"\x03abc"
    a2 = name([b"host", b"example"]) + struct.pack("!HHIH", 16, 1, 60, len(txt)) + txt
    return struct.pack("!HHHHHH", 42, 0x8180, 1, 2, 0, 0) + q + a1 + a2


PNG = (b"\x89PNG\r\n\x1a\n\x00\x00\x00\rIHDR\x00\x00\x00\x01\x00\x00\x00\x01\x08\x02\x00\x00\x00\x90wS\xde"
       b"\x00\x00\x00\x0ctEXtTitle\x00abc\x00\x00\x00\x00\x00\x00\x00\x0cIDATx\x9cc\xf8\xcf\xc0\x00\x00\x03\x01\x01\x00\x18\xdd\x8d\xb0\x00\x00\x00\x00IEND\xaeB`\x82")
GIF = b"GIF89a\x01\x00\x01\x00\x80\x00\x00\x00\x00\x00\xff\xff\xff!\xfe\x03abc\x00,\x00\x00\x00\x00\x01\x00\x01\x00\x00\x02\x02D\x01\x00;"
MULTIPART = (b"--AaB03x\r\nContent-Disposition: form-data; name=\"field1\"\r\n\r\nvalue1\r\n--AaB03x\r\n"
             b"Content-Disposition: form-data; name=\"f\"; filename=\"a.txt\"\r\nContent-Type: text/plain\r\n\r\nfile\r\n--AaB03x--\r\n")

# (view name, message kind, content type, seed, request path)
CASES = [
    ("viewcss", "http-response", "text/css", b"body { color: red; } /* c */ a:hover{margin:0}\n@media x { p { a: b } }", b"/p"),
    ("dns", "udp", None, _dns_seed(), b"/p"),
    ("dns", "http-response", "application/dns-message", _dns_seed(), b"/p"),
    ("graphql", "http-request", "application/json", b'{"query":"query Q {\\n a { b }\\n}","variables":{"x":1}}', b"/p"),
    ("http/3 frames", "tcp", None, b"\x01\x1d\x00\x00\xd1\xc1\xd7P\x8a\x08\x9d\\\x0b\x81p\xdcx\x0f\x03_P\x88%\xb6P\xc3\xab\xbc\xda\xe0\xdd\x00\x03abc", b"/p"),
    ("image", "http-response", "image/png", PNG, b"/p"),
    ("image", "http-response", "image/gif", GIF, b"/p"),
    ("javascript", "http-response", "application/javascript", b"function f(a){return a+1;} // x\nvar s = 'q\\'r';", b"/p"),
    ("json", "http-response", "application/json", b'{"a": [1, 2, {"b": "c\\u00e9"}], "d": null, "e": "x\\ny"}', b"/p"),
    ("mqtt", "tcp", None, b"\x10\x10\x00\x04MQTT\x04\x02\x00\x3c\x00\x04abcd", b"/p"),
    ("mqtt", "tcp", None, b"\x32\x0b\x00\x03a/b\x00\x04body", b"/p"),
    ("multipart form", "http-request", "multipart/form-data; boundary=AaB03x", MULTIPART, b"/p"),
    ("query", "http-request", None, b"", b"/p?a=1&b=%20x&a=2"),
    ("raw", "http-response", "application/octet-stream", b"plain text body", b"/p"),
    ("socket.io", "ws-text", None, b'42["ev",{"a":1}]', b"/socket.io/?EIO=4"),
    ("url-encoded", "http-request", "application/x-www-form-urlencoded", b"a=1&b=%20x&c&d=e", b"/p"),
    ("wbxml", "http-response", "application/vnd.wap.wbxml", b"\x03\x01\x6a\x00", b"/p"),
    ("xml/html", "http-response", "text/xml", b"<?xml version='1.0'?><a b='c'><d>e</d><!-- f --><![CDATA[g]]></a>", b"/p"),
    ("xml/html", "http-response", "text/html", b"<!DOCTYPE html><html><head><title>t</title></head><body><p class=x>y</p><script>var a='<';</script></body></html>", b"/p"),
    ("zip archive", "http-response", "application/zip", _zip_seed(), b"/p"),
    ("hex dump", "http-response", "application/octet-stream", b"\x00\x01binary\xff\xfe", b"/p"),
    ("hex stream", "http-response", "application/octet-stream", b"\x00\x01binary\xff\xfe", b"/p"),
    ("msgpack", "http-response", "application/msgpack", b"\x82\xa1a\x01\xa1b\x93\x01\xa2xy\xc0", b"/p"),
    ("protobuf", "http-response", "application/x-protobuf", b"\x08\x96\x01\x12\x03abc\x1a\x02\x08\x01", b"/p"),
    ("grpc", "http-response", "application/grpc", b"\x00\x00\x00\x00\x08\x08\x96\x01\x12\x03abc", b"/p"),
]
BYTES1 = [0x00, 0x1B, 0x7F, 0x80, 0x9B, 0xC2, 0xFF, 0x22, 0x3C, 0x7B, 0x0A, 0x5C, 0x27, 0x41, 0x2F, 0x26, 0x3D, 0x2D]
BYTES2 = [0x9B, 0x80, 0x1B, 0xFF, 0x22, 0x00, 0x3E, 0x2A]
QUICK_B1, QUICK_B2 = 12, 5  # the quick tier uses the first 12 / 5 entries


def h_views(X, thorough):
    from mitmproxy import contentviews

    _ctx()
    view, kind, ctype, seed, path = X.choose("case", CASES)
    select = X.choose("select", ["explicit", "auto"])
    n = X.choose("spliced_bytes", 3)
    data = seed
    if n:
        b1, b2 = (BYTES1, BYTES2) if thorough else (BYTES1[:QUICK_B1], BYTES2[:QUICK_B2])
        ins = bytes([X.choose("byte1", b1)] + ([X.choose("byte2", b2)] if n == 2 else []))
        L = len(seed)
        offs = {0, 1, 2, L // 4, L // 3, L // 2, (2 * L) // 3, max(L - 2, 0), max(L - 1, 0), L} if thorough else {0, 1, L // 3, L // 2, max(L - 1, 0), L}
        off = X.choose("offset", sorted(offs))
        op = X.choose("op", ["insert", "overwrite"]) if thorough else "insert"
        data = seed[:off] + ins + (seed[off:] if op == "insert" else seed[off + len(ins):])
    m, f = _message(X, kind, data, ctype, path)
    if view == "http/3 frames":
        f.metadata["quic_is_unidirectional"] = False
        f.client_conn.alpn = b"h3"
    if view == "dns" and kind == "udp":
        f.server_conn.address = ("8.8.8.8", 53)
    try:
        res = watchdog(lambda: contentviews.prettify_message(m, f, view if select == "explicit" else "auto"))
    except _Hang as h:
        X.fail(f"C50/hangs/{view}", f"prettify_message({kind}, view={view if select == 'explicit' else 'auto'}) does not return ({h}) on the {len(data)}-byte body {data!r}")
    except Exception as e:  # noqa
        X.fail(f"C50/raises/{view}", f"prettify_message({kind}, view={view if select == 'explicit' else 'auto'}) raised {type(e).__name__}: {e!r} on body {data!r}")
    X.reach("returned")
    if res.view_name and res.view_name.lower() == view and "failed to parse" not in res.description and not res.text.startswith("Couldn't parse"):
        X.reach("ok:" + view)
        if select == "auto":
            X.reach("auto:" + view)
    elif select == "explicit":
        X.reach("explicit-error-shown")
    else:
        X.reach("auto-fallback")
    _judge_text(X, res, f"view {view} ({select}) on {kind} body {data!r}", view)


# ------------------------------------------------------------------------------------------
# (iii) DNS view round trip


def _records():
    from mitmproxy import dns
    from mitmproxy.net.dns import https_records

    t = dns.types
    IN = dns.classes.IN
    https = https_records.pack(https_records.HTTPSRecord(1, "svc.example", {1: b"\x02h2", 3: b"\x01\xbb"})) if hasattr(https_records, "pack") else b"\x00\x01\x00"
    return [
        dns.ResourceRecord("host.example", t.A, IN, 60, b"\x01\x02\x03\x04"),
        dns.ResourceRecord("host.example", t.AAAA, IN, 0, bytes(range(16))),
        dns.ResourceRecord("host.example", t.CNAME, IN, 300, b"\x03www\x07example\x00"),
        dns.ResourceRecord("4.3.2.1.in-addr.arpa", t.PTR, IN, 300, b"\x04host\x07example\x00"),
        dns.ResourceRecord("example", t.NS, IN, 2 ** 31 - 1, b"\x02ns\x07example\x00"),
        dns.ResourceRecord("host.example", t.TXT, IN, 60, b"\x03abc"),
        dns.ResourceRecord("host.example", t.TXT, IN, 60, b"\x03abc\x02de"),
        dns.ResourceRecord("host.example", t.TXT, IN, 60, b"\x04a\"b\\"),
        dns.ResourceRecord("host.example", t.TXT, IN, 60, b"\x02\xc3\xa9"),
        dns.ResourceRecord("host.example", t.TXT, IN, 60, b"\x03a\x1bb"),
        dns.ResourceRecord("host.example", t.TXT, IN, 60, b"\x03\xc2\x9bm"),
        dns.ResourceRecord("host.example", t.TXT, IN, 60, b"\x01\xff"),
        dns.ResourceRecord("host.example", t.TXT, IN, 60, b""),
        dns.ResourceRecord("host.example", t.MX, IN, 60, b"\x00\x0a\x04mail\x07example\x00"),
        dns.ResourceRecord("host.example", t.HTTPS, IN, 60, https),
        # SvcPriority is a 16-bit field: 0x9c40 = 40000 (wire bytes as a server may send them)
        dns.ResourceRecord("host.example", t.HTTPS, IN, 60, b"\x9c\x40" + https[2:]),
        dns.ResourceRecord("host.example", t.HTTPS, IN, 60, b"\x00"),
        dns.ResourceRecord("host.example", t.A, IN, 60, b"\x01\x02\x03"),
        dns.ResourceRecord("", t.SOA, IN, 60, b"\x00\x00" + bytes(20)),
        dns.ResourceRecord("host.example", 65280, 3, 60, b"\x00\x1b\x9b"),
        dns.ResourceRecord("xn--bcher-kva.example", t.A, dns.classes.CH, 60, b"\x7f\x00\x00\x01"),
    ]


def _eq_msg(X, a, b, what):
    for attr in ("id", "query", "op_code", "authoritative_answer", "truncation", "recursion_desired", "recursion_available", "reserved", "response_code"):
        X.check(getattr(a, attr) == getattr(b, attr), f"C50/dns-roundtrip/header/{attr}", f"{what}: {attr} {getattr(a, attr)!r} -> {getattr(b, attr)!r}")
    X.check([(q.name, q.type, q.class_) for q in a.questions] == [(q.name, q.type, q.class_) for q in b.questions], "C50/dns-roundtrip/questions",
            f"{what}: questions {a.questions!r} -> {b.questions!r}")
    for sec in ("answers", "authorities", "additionals"):
        ra = [(r.name, r.type, r.class_, r.ttl, r.data) for r in getattr(a, sec)]
        rb = [(r.name, r.type, r.class_, r.ttl, r.data) for r in getattr(b, sec)]
        if ra != rb:
            diff = next((x, y) for x, y in zip(ra + [None], rb + [None]) if x != y)
            tname = "?"
            if diff[0] is not None:
                from mitmproxy import dns

                tname = dns.types.to_str(diff[0][1])
            X.fail(f"C50/dns-roundtrip/records/{tname}", f"{what}: {sec} differ: {diff[0]!r} -> {diff[1]!r}")


def h_dns_roundtrip(X, thorough):
    from mitmproxy import contentviews, dns
    from mitmproxy.test import tflow

    _ctx()
    recs = _records()
    t = dns.types
    questions = [dns.Question("host.example", t.A, dns.classes.IN), dns.Question("", t.TXT, dns.classes.CH), dns.Question("xn--bcher-kva.example", 255, dns.classes.IN),
                 dns.Question("a.b.c.d.example", 65280, 254)]
    mode = X.choose("vary", ["header", "sections"] + (["two-records"] if thorough else []))
    if mode == "header":
        # every header field varies, one question, one A record
        bits = X.choose("header_bits", 32)
        msg = dns.DNSMessage(
            timestamp=946681200.0, id=X.choose("id", [0, 42, 65535]), query=bool(bits & 1), op_code=X.choose("op_code", [0, 2, 5]),
            authoritative_answer=bool(bits & 2), truncation=bool(bits & 4), recursion_desired=bool(bits & 8), recursion_available=bool(bits & 16),
            reserved=X.choose("reserved", [0, 5]), response_code=X.choose("response_code", [0, 3, 9]),
            questions=[questions[0]], answers=[recs[0]], authorities=[], additionals=[])
        nrec = 1
    else:
        qn = X.choose("n_questions", 3 if mode == "sections" else 2)
        max_records = 1 if mode == "sections" else 2
        msg = dns.DNSMessage(
            timestamp=946681200.0, id=42, query=False, op_code=0, authoritative_answer=False, truncation=False, recursion_desired=True, recursion_available=True,
            reserved=0, response_code=0, questions=[X.choose("question", questions) for _ in range(qn)], answers=[], authorities=[], additionals=[])
        nrec = X.choose("n_records", max_records + 1) if mode == "sections" else 2
        for i in range(nrec):
            sec = X.choose("section", ["answers", "authorities", "additionals"])
            getattr(msg, sec).append(X.choose("record", recs))
    # normalise through the real wire decoder: the message is one the proxy can actually hold (IDN labels are kept in their decoded form)
    try:
        msg = dns.DNSMessage.unpack(msg.packed, timestamp=946681200.0)
    except struct.error:
        X.assume(False)
    transport = X.choose("carrier", ["dns-message", "udp", "tcp"])
    X.reach("built")
    if transport == "dns-message":
        f = tflow.tdnsflow(req=msg)
        m = msg
        wire = msg.packed
    else:
        from mitmproxy import tcp, udp

        wire = msg.packed
        if transport == "udp":
            f = tflow.tudpflow()
            m = udp.UDPMessage(True, wire)
        else:
            f = tflow.ttcpflow()
            wire = struct.pack("!H", len(wire)) + wire
            m = tcp.TCPMessage(True, wire)
        f.messages = [m]
    res = contentviews.prettify_message(m, f, "dns")
    X.check(res.view_name == "DNS" and not res.text.startswith("Couldn't parse"), "C50/dns-roundtrip/does-not-render", f"DNS view cannot render its own packing of {msg!r}: {res.text[:300]!r}")
    try:
        again = contentviews.reencode_message(res.text, m, f, "dns")
    except Exception as e:  # noqa
        rtype = "?"
        for r in msg.answers + msg.authorities + msg.additionals:
            rtype = dns.types.to_str(r.type)
        X.fail(f"C50/dns-roundtrip/reencode-raises/{type(e).__name__}", f"reencode_message of the unedited rendering raised {type(e).__name__}: {e} — message {msg!r}, rendering {res.text[:400]!r}")
    if transport == "tcp":
        X.check(len(again) >= 2 and struct.unpack("!H", again[:2])[0] == len(again) - 2, "C50/dns-roundtrip/tcp-length-prefix", f"re-encoded TCP DNS message has a wrong length prefix: {again[:4]!r}")
        again = again[2:]
    try:
        back = dns.DNSMessage.unpack(again)
    except struct.error as e:
        X.fail("C50/dns-roundtrip/reencoded-not-decodable", f"re-encoded bytes do not decode: {e}; message {msg!r}")
    X.reach("round-trip")
    if nrec:
        X.reach("with-records")
    _eq_msg(X, msg, back, f"DNS view round trip ({transport})")


KFILE = "props/chx/c49_kernel.py"


def obligations(tier):
    q = tier == "quick"
    view_reach = sorted({"ok:" + c[0] for c in CASES}) + ["returned", "auto-fallback", "explicit-error-shown", "auto:json", "auto:xml/html", "auto:dns"]
    return [
        Chx("escape-kernel-c0-del", KFILE, "check_escape_c0_del", twin="twin_escape_c0_del", encoded=ENCODED[7:8], timeout=60,
            bounds="escape_control_characters('x'+chr(c)+'y', keep) for every code point c outside U+0080-U+009F, keep_spacing symbolic (what prettify_message applies to every result)"),
        Chx("escape-kernel-all-code-points", KFILE, "check_escape_all", twin="twin_escape_all", encoded=ENCODED[7:8], timeout=60,
            keyfn=lambda a, k: "C50/c1-controls/escape_control_characters",
            bounds="the same for every one of the 1.1 M code points"),
        Symx("wrapper-totality", h_wrapper,
             bounds=f"stub view behaviour (returns text / raises 5 exception types / render_priority raises) x {len(CHARS)} characters x 6 message kinds x 4 bodies x content missing x "
                    "selection auto / explicit / unknown name", encoded=ENCODED[:5] + ENCODED[7:8], must_reach=["returned", "error-path", "fallback-path", "printable-shown"], parallel_depth=2),
        Symx("real-views", lambda X: h_views(X, not q),
             bounds=f"{len(CASES)} (view, message kind, content type, seed) cases covering all {len({c[0] for c in CASES})} registered views x explicit / auto selection x 0-2 spliced bytes "
                    f"(first from {QUICK_B1 if q else len(BYTES1)}, second from {QUICK_B2 if q else len(BYTES2)} class representatives) at {6 if q else 10} offsets" + ("" if q else " x insert / overwrite"),
             encoded=ENCODED[:5] + ENCODED[7:8], must_reach=view_reach, parallel_depth=2),
        Symx("dns-view-roundtrip", lambda X: h_dns_roundtrip(X, not q),
             bounds=f"DNS messages: (a) 5 header flag bits x id x opcode x reserved x rcode with one question and one record; (b) 0-2 questions (4 shapes) x 0-1 records" + ("" if q else "; (c) 0-1 questions x every ordered pair of records") + f" from {len(_records())} shapes "
                    "(A, AAAA, CNAME, PTR, NS, TXT variants, MX, HTTPS, malformed A, SOA, unknown type) in any section x carrier (DNSMessage / UDP / TCP)",
             encoded=ENCODED[5:7] + ENCODED[8:], must_reach=["built", "round-trip", "with-records"], parallel_depth=3),
    ]
