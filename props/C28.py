"""C28 — WebSocket messages are relayed exactly once with their exact content.

(i) Fragmentizer kernel: the real `Fragmentizer.__call__/msg` with `FRAGMENT_SIZE` set to a small solver-chosen
    F, content built from solver-chosen code-point classes (1/2/3/4-byte UTF-8, so multi-byte code points
    straddle slice boundaries) or binary, and the original fragment lengths as *symbolic ints*: the code's own
    `len(content) == sum(fragment_lengths)` forks; in the "same length" branch the solver enumerates every
    composition of the length, in the other branch one path covers all lengths.  Asserted: concatenation of
    the emitted pieces (re-encoded) == content; the last piece and only it has message_finished; same length
    => piece lengths == original fragment lengths (up to the code point a boundary falls into, for text).
(ii) e2e: the real `WebsocketLayer` between two in-memory wsproto peers (pure Python), native execution, every
    structural choice a solver-enumerated selector: direction, text/binary, fragment pattern, TCP segmentation,
    addon action in the message hook (none / same-length edit / length-changing edit / drop), injected
    messages, ping/pong, close with code and reason, permessage-deflate on/off.  Oracle: the receiving peer
    decodes each non-dropped message once, in order, same type, content == flow.websocket.messages[i].content;
    every message a peer sent is recorded once with its original content; unmodified messages keep their
    frame count (and exact frame payload sizes when the sender split on code-point boundaries); pings/pongs
    arrive with their payload; close code/reason recorded == sent == delivered to the other peer; exactly one
    websocket_end hook.
"""
import wsproto
import wsproto.events as we
import wsproto.extensions
from wsproto.connection import Connection, ConnectionType
from wsproto.frame_protocol import Opcode

from mitmproxy import connection, http, websocket
from mitmproxy.connection import ConnectionState
from mitmproxy.proxy.layers import websocket as wl

from vf import sansio
from vf.ob import Symx

LEVEL = "model_checking"
ASSUMPTIONS = [
    "kernel: Fragmentizer.fragment_lengths is set to symbolic ints after the real __init__ ran (which only computes [len(x) for x in fragments])",
    "text content = sequences of code points drawn from one representative alphabet per UTF-8 length class (1,2,3,4 bytes); byte-level slicing/decoding "
    "depends only on the lead/continuation structure",
    "e2e: peers are wsproto 1.3 Connection objects (trusted framing oracle); masks are random but never influence control flow",
    "hooks complete immediately; the addon acts inside websocket_message; FRAGMENT_SIZE is set to a small value (documented as tunable) so that "
    "re-fragmentation happens on short messages",
]
OUTSIDE = ["messages longer than the stated bounds", "the exact frame boundary inside a code point that the sender split across two frames (mitmproxy moves it to the "
           "code point boundary: wsproto's incremental decoder attributes the code point to the later frame)", "zlib itself (permessage-deflate runs concretely)",
           "the HTTP upgrade handshake (C01/C03)"]
ENCODED = ["mitmproxy.proxy.layers.websocket:Fragmentizer.__call__", "mitmproxy.proxy.layers.websocket:Fragmentizer.msg", "mitmproxy.proxy.layers.websocket:Fragmentizer.__init__",
           "mitmproxy.proxy.layers.websocket:WebsocketLayer.start", "mitmproxy.proxy.layers.websocket:WebsocketLayer.relay_messages",
           "mitmproxy.proxy.layers.websocket:WebsocketConnection.send2"]

_OPTS = sansio.make_options()
# one alphabet per UTF-8 length class; position-dependent so that reordering / duplication is visible
_ALPHA = {1: "abcdefgh", 2: "éèêëàâöü", 3: "€☃✓あ中文←→", 4: "\U0001F600\U0001F601\U0001F602\U0001F603\U0001F604\U0001F605\U0001F606\U0001F607"}
_KEY_SPLIT = "C28/fragmentizer/text-split-multibyte"


# ---------------------------------------------------------------------------------------------
# (i) kernel


def h_fragmentizer(X, is_text, max_units, max_frags):
    F = X.choose("FRAGMENT_SIZE", [1, 2, 3, 4, 5])
    n = X.choose("n_units", max_units + 1)
    if is_text:
        classes = [X.choose("utf8_len", [1, 2, 3, 4]) for _ in range(n)]
        text = "".join(_ALPHA[c][i] for i, c in enumerate(classes))
        content = text.encode()
        if any(c > 1 for c in classes):
            X.reach("multibyte")
    else:
        content = bytes(range(0x80, 0x80 + n))  # bytes that are not valid UTF-8 on their own
    k = X.choose("n_fragments", max_frags + 1)
    lengths = [X.int(f"frag_len{i}", 0, 16) for i in range(k)]
    fz = wl.Fragmentizer([], is_text)
    fz.fragment_lengths = list(lengths)
    saved = wl.Fragmentizer.FRAGMENT_SIZE
    wl.Fragmentizer.FRAGMENT_SIZE = F
    pieces = []
    try:
        for piece in fz(content):
            pieces.append(piece)
            # every piece but the last carries at least ... nothing, in the worst case; still, more pieces than bytes + fragments is a runaway
            X.check(len(pieces) <= len(content) + k + 2, "C28/fragmentizer/does-not-terminate",
                    f"more than {len(content) + k + 2} pieces for {len(content)} bytes (FRAGMENT_SIZE={F}): the slicing loop makes no progress")
    finally:
        wl.Fragmentizer.FRAGMENT_SIZE = saved
    # which branch did the code take?  (already decided by the path condition: no new fork)
    same = bool(sum(lengths) == len(content)) if k else len(content) == 0
    L = [int(x) for x in lengths] if same else "symbolic, sum != len(content)"  # concrete on the same-length branch only
    X.check(len(pieces) >= 1, "C28/fragmentizer/no-piece", "no piece emitted")
    fin = [bool(p.message_finished) for p in pieces]
    X.check(fin[-1] and not any(fin[:-1]), "C28/fragmentizer/finished-flag", f"message_finished flags {fin}")
    for p in pieces:
        X.check(isinstance(p, we.TextMessage if is_text else we.BytesMessage), "C28/fragmentizer/piece-type", f"piece {p!r} has the wrong type")
    enc = [p.data.encode() if is_text else bytes(p.data) for p in pieces]
    joined = b"".join(enc)
    if is_text and joined != content:
        X.check("\ufffd" not in "".join(p.data for p in pieces), _KEY_SPLIT,
                f"text {content.decode()!r} ({content!r}) sliced by bytes: pieces {[p.data for p in pieces]} contain U+FFFD - a multi-byte code point was cut and "
                f"each half decoded with errors='replace' (FRAGMENT_SIZE={F}, fragment_lengths={L})")
    X.check(joined == content, "C28/fragmentizer/content", f"pieces {enc} do not concatenate to the content {content!r}")
    if same:
        # same total length => the original fragmentation is reused
        X.reach("same-length")
        if k == 0:
            X.check(len(enc) == 1, "C28/fragmentizer/lengths-not-kept", f"empty message without fragments emitted {len(enc)} pieces")
        else:
            X.check(len(enc) == k, "C28/fragmentizer/lengths-not-kept", f"same length, {k} original fragments but {len(enc)} pieces")
            # piece boundaries == original boundaries; for text a boundary that falls inside a code point may move to either end
            # of that code point (a TEXT fragment handed to wsproto as str cannot end inside a code point)
            cps = {0}
            if is_text:
                pos = 0
                for ch in text:
                    pos += len(ch.encode())
                    cps.add(pos)
            got_b = orig_b = 0
            for i in range(k):
                got_b += len(enc[i])
                orig_b += L[i]
                if not is_text or orig_b in cps:
                    ok = got_b == orig_b
                else:
                    ok = got_b in (max(c for c in cps if c < orig_b), min(c for c in cps if c > orig_b))
                    X.reach("boundary-inside-codepoint")
                X.check(ok, "C28/fragmentizer/lengths-not-kept", f"same length, but piece lengths {[len(e) for e in enc]} != original {L}")
    else:
        X.reach("resized")
        X.check(all(len(e) <= F + 3 for e in enc), "C28/fragmentizer/oversized-piece", f"piece lengths {[len(e) for e in enc]} exceed FRAGMENT_SIZE={F}")
        if len(enc) > 1:
            X.reach("refragmented")
    X.reach("end")


# ---------------------------------------------------------------------------------------------
# (ii) e2e


class _Driver(sansio.Driver):
    """a layer that never stops emitting commands must fail the check, not hang it"""

    X = None

    def _exec(self, cmd):
        if len(self.trace) > 5000:
            self.X.fail("C28/e2e/runaway", f"the layer emitted more than 5000 commands; last: {cmd!r}")
        super()._exec(cmd)


def _mk(deflate):
    ctx = sansio.make_context(_OPTS)
    ctx.server = connection.Server(address=("example.com", 80))
    ctx.server.state = ConnectionState.OPEN
    ctx.server.timestamp_start = 1700000000.5
    req = http.Request.make("GET", "http://example.com/", headers={"Connection": "upgrade", "Upgrade": "websocket", "Sec-WebSocket-Version": "13"})
    resp = http.Response.make(101, b"", {"Upgrade": "websocket", "Connection": "Upgrade"})
    if deflate:
        resp.headers["Sec-WebSocket-Extensions"] = "permessage-deflate"
    flow = http.HTTPFlow(ctx.client, ctx.server)
    flow.request, flow.response = req, resp
    flow.websocket = websocket.WebSocketData()
    lay = wl.WebsocketLayer(ctx, flow)
    d = _Driver(lay, ctx)

    def ext():
        if not deflate:
            return []
        e = wsproto.extensions.PerMessageDeflate()
        e.finalize("permessage-deflate")
        return [e]

    peers = {"client": Connection(ConnectionType.CLIENT, ext()), "server": Connection(ConnectionType.SERVER, ext())}
    return ctx, flow, d, peers


_TEXT = "aé€\U0001F600b"  # 1+2+3+4+1 = 11 bytes
_TEXT_SAMELEN = "\U0001F600€éxy"  # 4+3+2+1+1 = 11 bytes, different code point layout
_BIN = bytes(range(0xF0, 0xFB))  # 11 bytes, not UTF-8


class _World:
    """the two peers + the layer + the reference bookkeeping"""

    def __init__(self, X, deflate, F):
        self.X = X
        self.deflate = deflate
        self.ctx, self.flow, self.d, self.peers = _mk(deflate)
        self.d.X = X
        self.conn = {"client": self.ctx.client, "server": self.ctx.server}
        self.consumed = {"client": 0, "server": 0}
        self.rx = {"client": [], "server": []}  # complete messages decoded by that peer: (is_text, content bytes, [frame payload sizes])
        self.rx_partial = {"client": None, "server": None}
        self.rx_other = {"client": [], "server": []}  # pings / pongs / closes seen by that peer
        self.n_recorded = 0
        self.sent_frames = {}  # index in flow.websocket.messages -> frame sizes the sender used (None: not comparable)
        self.actions = {}  # index -> action applied by the addon
        self.plan = "none"
        self.d.on_hook = self.on_hook
        self.F = F

    def on_hook(self, hook):
        if hook.name == "websocket_message":
            m = self.flow.websocket.messages[-1]
            idx = len(self.flow.websocket.messages) - 1
            act = self.plan if not m.injected else "none"
            self.actions[idx] = act
            if act == "same-length":
                m.content = _TEXT_SAMELEN.encode() if m.is_text else bytes(reversed(m.content))
            elif act == "resize":
                m.content = (("€x\U0001F600é" + m.text).encode() if m.is_text else (b"\xfe\xff" * 3 + m.content))
            elif act == "drop":
                m.drop()
        return True

    def pump(self):
        """deliver what the layer wrote to each peer and decode it"""
        for side in ("client", "server"):
            data = self.d.sent_to(self.conn[side])
            new = data[self.consumed[side]:]
            self.consumed[side] = len(data)
            if not new:
                continue
            p = self.peers[side]
            p.receive_data(new)
            for ev in p.events():
                if isinstance(ev, we.Message):
                    is_text = isinstance(ev, we.TextMessage)
                    cur = self.rx_partial[side]
                    if cur is None:
                        cur = self.rx_partial[side] = [is_text, b"", [0]]
                    self.X.check(cur[0] == is_text, "C28/e2e/type-changes-mid-message", f"{side} peer: fragment type changed inside a message")
                    chunk = ev.data.encode() if is_text else bytes(ev.data)
                    cur[1] += chunk
                    cur[2][-1] += len(chunk)
                    if ev.message_finished:
                        self.rx[side].append((cur[0], cur[1], cur[2]))
                        self.rx_partial[side] = None
                    elif ev.frame_finished:
                        cur[2].append(0)
                else:
                    self.rx_other[side].append(ev)

    def judge(self, where):
        X, flow = self.X, self.flow
        msgs = flow.websocket.messages
        for side, from_client in (("server", True), ("client", False)):
            exp = [(i, m) for i, m in enumerate(msgs) if m.from_client == from_client and not m.dropped]
            got = self.rx[side]
            X.check(len(got) == len(exp), "C28/e2e/message-count",
                    f"{where}: {side} peer decoded {len(got)} messages, flow records {len(exp)} non-dropped messages for it: got={got} recorded={[(m.type, m.content) for _, m in exp]}")
            for (is_text, content, frames), (i, m) in zip(got, exp):
                X.check(is_text == (m.type == Opcode.TEXT), "C28/e2e/type", f"{where}: message {i} recorded as {m.type!r} but delivered as {'text' if is_text else 'binary'}")
                if content != m.content and is_text:
                    X.check(b"\xef\xbf\xbd" not in content or b"\xef\xbf\xbd" in m.content, _KEY_SPLIT,
                            f"{where}: text message {i} recorded as {m.content.decode()!r} reached the {side} peer as {content.decode()!r}: a multi-byte code point was cut at a "
                            f"fragment boundary and decoded with errors='replace' (addon action: {self.actions.get(i)}, injected: {m.injected}, FRAGMENT_SIZE={self.F})")
                X.check(content == m.content, "C28/e2e/content", f"{where}: message {i}: delivered {content!r} != recorded {m.content!r} (action {self.actions.get(i)})")
                sf = self.sent_frames.get(i)
                if sf is not None and self.actions.get(i) == "none" and not self.deflate:
                    exact, sizes = sf
                    if exact:
                        X.check(frames == sizes, "C28/e2e/frame-boundaries", f"{where}: unmodified message {i} sent as frames {sizes}, delivered as {frames}")
                    else:
                        X.check(len(frames) == len(sizes), "C28/e2e/frame-count", f"{where}: unmodified message {i} sent in {len(sizes)} frames, delivered in {len(frames)}")
                    X.reach("boundaries-compared")


def _fragments(X, is_text, pattern):
    """-> list of fragment payloads (str or bytes), exact?: boundaries on code point boundaries"""
    if is_text:
        t = _TEXT
        if pattern == "single":
            return [t], True
        if pattern == "two":
            return [t[:2], t[2:]], True
        if pattern == "three-empty-middle":
            return [t[:3], "", t[3:]], True
        raise AssertionError(pattern)
    b = _BIN
    if pattern == "single":
        return [b], True
    if pattern == "two":
        return [b[:3], b[3:]], True
    if pattern == "three-empty-middle":
        return [b[:6], b"", b[6:]], True
    raise AssertionError(pattern)


def _wire(peer, is_text, pattern):
    """bytes the sending peer puts on the wire + the frame payload sizes it used"""
    if pattern == "two-mid-codepoint":
        # RFC 6455 allows a text message to be fragmented inside a code point: build the frames by hand from a binary
        # split of the UTF-8 bytes (wsproto's sender only takes str), then flip the opcode of the first frame to TEXT
        raw = _TEXT.encode()
        cut = 4  # inside the 3-byte code point
        a = bytearray(peer.send(we.BytesMessage(raw[:cut], message_finished=False)))
        b = peer.send(we.BytesMessage(raw[cut:], message_finished=True))
        a[0] = (a[0] & 0xF0) | 0x1
        return bytes(a) + b, (False, [cut, len(raw) - cut])
    frags, exact = _fragments(None, is_text, pattern)
    out = b""
    sizes = []
    for i, f in enumerate(frags):
        cls = we.TextMessage if is_text else we.BytesMessage
        out += peer.send(cls(f, message_finished=(i == len(frags) - 1)))
        sizes.append(len(f.encode() if is_text else f))
    return out, (exact, sizes)


def _feed_segmented(X, w, side, data, menu=("whole", "first-byte", "middle", "bytewise-head")):
    seg = X.choose("segmentation", list(menu))
    if seg == "whole" or len(data) < 2:
        cuts = []
    elif seg == "first-byte":
        cuts = [1]
    elif seg == "middle":
        cuts = [len(data) // 2]
    else:
        cuts = [1, 2, 3, len(data) - 1]
        X.reach("many-segments")
    last = 0
    for c in sorted(set(cuts)):
        if last < c < len(data):
            w.d.data(w.conn[side], data[last:c])
            last = c
    w.d.data(w.conn[side], data[last:])


def _send_message(X, w, patterns, actions, segm):
    side = X.choose("from", ["client", "server"])
    is_text = X.boolean("is_text")
    pats = list(patterns) + (["two-mid-codepoint"] if is_text and "two" in patterns and not w.deflate else [])
    pattern = X.choose("fragments", pats)
    w.plan = X.choose("addon", list(actions))
    data, sent = _wire(w.peers[side], is_text, pattern)
    n0 = len(w.flow.websocket.messages)
    _feed_segmented(X, w, side, data, segm)
    msgs = w.flow.websocket.messages
    X.check(len(msgs) == n0 + 1, "C28/e2e/recorded-once", f"one {('text' if is_text else 'binary')} message sent by the {side} peer, {len(msgs) - n0} messages recorded")
    m = msgs[-1]
    orig = _TEXT.encode() if is_text else _BIN
    X.check(m.from_client == (side == "client") and (m.type == Opcode.TEXT) == is_text and not m.injected, "C28/e2e/recorded-meta",
            f"recorded message has from_client={m.from_client} type={m.type!r} injected={m.injected}")
    if w.plan in ("none", "drop"):
        X.check(m.content == orig, "C28/e2e/recorded-content", f"message recorded as {m.content!r}, sent {orig!r}")
    w.sent_frames[n0] = sent
    X.reach("message")
    if is_text:
        X.reach("text")
    if w.plan != "none":
        X.reach("addon-" + w.plan)
    if pattern == "two-mid-codepoint":
        X.reach("split-inside-codepoint")
    return side


def _inject(X, w):
    to_server = X.boolean("inject_from_client")
    is_text = X.boolean("is_text")
    long = X.boolean("inject_long")
    if is_text:
        content = (_TEXT if long else "hé").encode()
    else:
        content = _BIN if long else b"\x00\xff"
    n0 = len(w.flow.websocket.messages)
    w.d.feed(wl.WebSocketMessageInjected(w.flow, websocket.WebSocketMessage(Opcode.TEXT if is_text else Opcode.BINARY, to_server, content)))
    msgs = w.flow.websocket.messages
    if len(msgs) == n0 + 1 and is_text and msgs[-1].content != content and b"\xef\xbf\xbd" in msgs[-1].content:
        X.fail(_KEY_SPLIT, f"injected text {content.decode()!r} is recorded (and relayed) as {msgs[-1].content.decode()!r}: the injection path slices it into "
                           f"FRAGMENT_SIZE={w.F}-byte pieces and decodes each with errors='replace'")
    X.check(len(msgs) == n0 + 1 and msgs[-1].injected and msgs[-1].content == content and msgs[-1].from_client == to_server,
            "C28/e2e/inject-recorded", f"injected message not recorded once as such: {msgs[n0:]}")
    X.reach("injected")


def _ping(X, w, lean=False):
    side = X.choose("from", ["client", "server"])
    pong = False if lean else X.boolean("pong")
    payload = b"p\x00\xff"
    ev = we.Pong(payload) if pong else we.Ping(payload)
    other = "server" if side == "client" else "client"
    n0 = len(w.rx_other[other])
    w.d.data(w.conn[side], w.peers[side].send(ev))
    w.pump()
    got = w.rx_other[other][n0:]
    X.check(len(got) == 1 and type(got[0]) is type(ev) and bytes(got[0].payload) == payload, "C28/e2e/ping-pong",
            f"{type(ev).__name__}({payload!r}) from {side}: the {other} peer saw {got}")
    X.reach("ping-pong")


_CLOSES = [(1000, ""), (1000, "bye"), (1001, "going é"), (3000, "x" * 20), (4999, ""), (1005, "")]


def _close(X, w, lean=False):
    side = X.choose("from", ["client", "server"])
    code, reason = X.choose("close", [_CLOSES[2], _CLOSES[5]] if lean else _CLOSES)
    other = "server" if side == "client" else "client"
    n0 = len(w.rx_other[other])
    if code == 1005:
        # "no status code": an empty close frame, written by hand (wsproto's sender turns 1005 into 1000)
        data = b"\x88\x80\x00\x00\x00\x00" if side == "client" else b"\x88\x00"
    else:
        data = w.peers[side].send(we.CloseConnection(code, reason or None))
    _feed_segmented(X, w, side, data, ("whole",) if lean else ("whole", "first-byte"))
    w.pump()
    ws = w.flow.websocket
    X.check(ws.close_code == code and (ws.close_reason or "") == reason, "C28/e2e/close-recorded",
            f"{side} closed with ({code}, {reason!r}); flow records ({ws.close_code}, {ws.close_reason!r})")
    X.check(ws.closed_by_client == (side == "client"), "C28/e2e/closed-by", f"closed_by_client={ws.closed_by_client} but the {side} closed")
    got = [e for e in w.rx_other[other][n0:] if isinstance(e, we.CloseConnection)]
    X.check(len(got) == 1 and got[0].code == code and (got[0].reason or "") == reason, "C28/e2e/close-relayed",
            f"{side} closed with ({code}, {reason!r}); the {other} peer saw {got}")
    X.check(w.d.hook_names.count("websocket_end") == 1, "C28/e2e/end-hook", f"{w.d.hook_names.count('websocket_end')} websocket_end hooks")
    X.reach("closed")


def h_single(X):
    """one message, every menu in full; then optionally ping and close"""
    deflate = X.boolean("permessage_deflate")
    F = X.choose("FRAGMENT_SIZE", [4, 7])
    saved = wl.Fragmentizer.FRAGMENT_SIZE
    wl.Fragmentizer.FRAGMENT_SIZE = F
    try:
        w = _World(X, deflate, F)
        w.d.start()
        X.check(w.d.hook_names == ["websocket_start"], "C28/e2e/start-hook", f"hooks after start: {w.d.hook_names}")
        if deflate:
            X.reach("deflate")
        _send_message(X, w, ("single", "two", "three-empty-middle"), ("none", "same-length", "resize", "drop"), ("whole", "first-byte", "middle", "bytewise-head"))
        w.pump()
        w.judge("after the message")
        tail = X.choose("then", ["nothing", "ping", "close"])
        if tail == "ping":
            _ping(X, w)
        elif tail == "close":
            _close(X, w)
        w.judge("end")
        X.reach("end")
    finally:
        wl.Fragmentizer.FRAGMENT_SIZE = saved


def h_sequence(X, K, lean=False):
    """schedules of K steps over messages in both directions, injections, ping/pong, close
    (lean: smaller per-step menus so that one more step stays exhaustible)"""
    F = 5
    saved = wl.Fragmentizer.FRAGMENT_SIZE
    wl.Fragmentizer.FRAGMENT_SIZE = F
    try:
        # with permessage-deflate each direction has its own compression context: messages in BOTH directions on one connection
        deflate = X.boolean("permessage_deflate")
        w = _World(X, deflate, F)
        if deflate:
            X.reach("deflate-sequence")
        w.d.start()
        n_msgs = 0
        for step in range(K):
            kinds = ["message", "inject", "ping", "close"] if n_msgs < 3 else ["inject", "ping", "close"]
            s = X.choose("step", kinds)
            if s == "message":
                _send_message(X, w, ("single", "two"), ("none", "resize", "drop"), ("whole",) if lean else ("whole", "middle"))
                n_msgs += 1
            elif s == "inject":
                _inject(X, w)
            elif s == "ping":
                _ping(X, w, lean)
            else:
                _close(X, w, lean)
                w.judge(f"step {step} (close)")
                break
            w.pump()
            w.judge(f"step {step} ({s})")
            if step >= 1:
                X.reach("two-steps")
        X.reach("end")
    finally:
        wl.Fragmentizer.FRAGMENT_SIZE = saved


def obligations(tier):
    units, frags, kseq = (3, 3, 2) if tier == "quick" else (4, 3, 3)
    return [
        Symx("fragmentizer-binary", lambda X: h_fragmentizer(X, False, 8, frags),
             bounds=f"FRAGMENT_SIZE in 1..5, binary content of 0..8 bytes, 0..{frags} original fragments with symbolic lengths in [0,16] (every composition on the same-length branch)",
             encoded=ENCODED[:3], must_reach=["end", "same-length", "resized", "refragmented"], stubs=["Fragmentizer.fragment_lengths := symbolic ints"]),
        Symx("fragmentizer-text", lambda X: h_fragmentizer(X, True, units, frags),
             bounds=f"FRAGMENT_SIZE in 1..5, text of 0..{units} code points each from a solver-chosen UTF-8 length class 1/2/3/4, 0..{frags} original fragments with symbolic lengths",
             encoded=ENCODED[:3], must_reach=["end", "same-length", "resized", "refragmented", "multibyte"], stubs=["Fragmentizer.fragment_lengths := symbolic ints"], parallel_depth=3),
        Symx("e2e-single-message", h_single,
             bounds="1 message x {client,server} x {text 1+2+3+4+1-byte code points, binary} x fragment pattern {1, 2, 3 frames with empty middle, 2 frames split inside a code point} x "
                    "TCP segmentation {whole, after 1st byte, middle, 5 segments} x addon {none, same-length edit, length-changing edit, drop} x permessage-deflate x FRAGMENT_SIZE {4,7}; "
                    "then {nothing, ping|pong, close with 6 code/reason pairs}",
             encoded=ENCODED, must_reach=["end", "message", "text", "addon-same-length", "addon-resize", "addon-drop", "deflate", "ping-pong", "closed", "boundaries-compared",
                                          "split-inside-codepoint", "many-segments"], parallel_depth=3),
        Symx("e2e-sequence", lambda X: h_sequence(X, kseq, lean=kseq > 2),
             bounds=f"every schedule of <= {kseq} steps (<= 3 messages) over {{message (direction x type x 1|2 frames x addon none/resize/drop x segmentation), injected message (direction x type x "
                    f"short/long), ping|pong, close}} x permessage-deflate on/off; FRAGMENT_SIZE=5" + ("; lean menus: no TCP segmentation choice, ping only, 2 close code/reason pairs" if kseq > 2 else ""),
             encoded=ENCODED, must_reach=["end", "message", "injected", "ping-pong", "closed", "two-steps", "deflate-sequence"], parallel_depth=3),
    ]
