"""C16 — generated leaf certificates are valid for the identity the client asked for.

  cert-for-identity (symx)  The real `TlsConfig.get_cert` -> `_ip_or_dns_name` -> `CertStore.get_cert` -> `dummy_cert`
      chain is executed once per solver-chosen configuration: SNI class {none, DNS, mixed case, long name, 63-byte
      label, IDN U-label, IDN A-label, wildcard-looking, IPv4 literal, IPv6 literal} x local address {IPv4, loopback,
      IPv6, zone-scoped IPv6} (when there is no SNI) x server address {none, same as SNI, DNS, IDN, IPv4, IPv6} x
      upstream certificate {none, CN only, CN not a host name, CN an IP, SAN list, CN+SAN+organization, duplicate of
      SNI, CRL distribution point, 64-character CN, IP addresses as dNSName entries} x `upstream_cert` option x CA {mitmproxy's own `create_store`
      CA, custom RSA intermediate under an EC root with an RFC 7093 (non-SHA-1) key identifier}.
      Selection logic: SAN set  ⊆ {SNI-or-local-address, server address, upstream CN/SANs}, contains the SNI (A-label)
      or the local address as iPAddress, no duplicates, CN/O only from the same sources.
      The REAL certificate returned by `dummy_cert` is then verified *concretely* with `cryptography.x509.verification`
      (strict server policy) against the CA for the requested name, plus validity window ∋ now, EKU serverAuth,
      AKI == CA SKI.  This half is concrete execution per solver-chosen configuration (the crypto is Rust/C):
      exhaustive over the menu, not over all names.
  validity-window (smt)     `not_valid_before/after` argument expressions and the CERT_* constants are lifted from the
      current source by AST; z3 shows the window brackets the instant of issue for every clock value and every
      local UTC offset (dummy_cert uses naive local time, cryptography reads it as UTC).
"""
import ast
import atexit
import datetime
import ipaddress
import shutil
import tempfile
import types
from pathlib import Path

import z3
from cryptography import x509
from cryptography.hazmat.primitives import hashes, serialization
from cryptography.hazmat.primitives.asymmetric import ec, rsa
from cryptography.x509 import verification
from cryptography.x509.oid import ExtendedKeyUsageOID, NameOID

import mitmproxy.ctx as mctx
from mitmproxy import certs, connection
from mitmproxy.addons import tlsconfig
from mitmproxy.proxy import context

from vf import sansio, smt
from vf.ob import Smt, Symx

LEVEL = "model_checking"
ASSUMPTIONS = [
    "verification half is concrete execution per solver-chosen configuration: cryptography.x509.verification (strict webpki server policy) is the trusted verifier",
    "IDNA expectation is a literal table (bücher.example -> xn--bcher-kva.example, RFC 3492 style), DNS names compare case-insensitively",
    "a wildcard-looking SNI ('*.example.com') is not a legal verifier subject; the certificate is verified for an instance (w.example.com) instead (weaker reading)",
    "CA generated once per process (RSA 2048) through the real CertStore.from_store / from_files in a temp dir; store caches cleared per configuration",
    "validity-window: local UTC offset in [-14h, +14h]; cryptography interprets naive datetimes as UTC",
    "ctx.options reduced to the one option get_cert reads (upstream_cert)",
]
OUTSIDE = ["names outside the menu classes (exhaustive over the menu, not over all names)",
           "SNI values that are not RFC 6066 HostNames although ClientHello.sni lets them through (trailing dot 'example.com.', underscore labels): "
           "the strict verifier rejects them as subjects; observed: for 'example.com.' the SAN keeps the dot and does not match 'example.com'",
           "labels longer than 63 bytes in SNI / server address (not DNS names)", "custom chains deeper than one intermediate, non-RSA CA keys",
           "the TLS handshake that presents the certificate (OpenSSL)"]
ENCODED = ["mitmproxy.addons.tlsconfig:TlsConfig.get_cert", "mitmproxy.addons.tlsconfig:_ip_or_dns_name", "mitmproxy.certs:CertStore.get_cert",
           "mitmproxy.certs:dummy_cert", "mitmproxy.certs:create_ca", "mitmproxy.certs:CertStore.from_files", "mitmproxy.certs:CertStore.asterisk_forms"]
TRUSTED = ["cryptography.x509.verification (rust webpki-profile verifier) and the cryptography/OpenSSL signing primitives"]
CERTS_PY = "mitmproxy/certs.py"

# ---------------------------------------------------------------------------------------------------------
# menus: (class, text handed to mitmproxy, expected general name ('dns'|'ip', value), verifier subject)

LONG_NAME = "a" * 30 + "." + "b" * 30 + "." + "c" * 30 + ".example.com"
LONG_LABEL = "x" * 63 + ".example.com"
SNI = [
    ("none", None, None, None),
    ("dns", "example.com", ("dns", "example.com"), ("dns", "example.com")),
    ("dns-mixed-case", "Example.COM", ("dns", "example.com"), ("dns", "example.com")),
    ("long-name", LONG_NAME, ("dns", LONG_NAME), ("dns", LONG_NAME)),
    ("long-label", LONG_LABEL, ("dns", LONG_LABEL), ("dns", LONG_LABEL)),
    ("idn-u-label", "bücher.example", ("dns", "xn--bcher-kva.example"), ("dns", "xn--bcher-kva.example")),
    ("idn-a-label", "xn--bcher-kva.example", ("dns", "xn--bcher-kva.example"), ("dns", "xn--bcher-kva.example")),
    ("wildcard-looking", "*.example.com", ("dns", "*.example.com"), ("dns", "w.example.com")),
    ("ipv4-literal", "192.0.2.7", ("ip", "192.0.2.7"), ("ip", "192.0.2.7")),
    ("ipv6-literal", "2001:db8::7", ("ip", "2001:db8::7"), ("ip", "2001:db8::7")),
]
SOCK = [("ipv4", "192.0.2.1", "192.0.2.1"), ("loopback", "127.0.0.1", "127.0.0.1"), ("ipv6", "2001:db8::1", "2001:db8::1"),
        ("ipv6-scoped", "fe80::1%eth0", "fe80::1")]
ADDR = [("none", None, None), ("same-as-sni", "=", None), ("dns", "origin.example", ("dns", "origin.example")),
        ("idn", "bücher.example", ("dns", "xn--bcher-kva.example")), ("ipv4", "198.51.100.9", ("ip", "198.51.100.9")),
        ("ipv6", "2001:db8::9", ("ip", "2001:db8::9"))]
CN64 = "Very Long Organisation Name Incorporated Secure Server CA 000001"
assert len(CN64) == 64 and "." not in CN64
#            class            CN                      SANs                                                              O            CRL DP
UPSTREAM = [
    ("none", None, [], None, None),
    ("cn-only", "upstream.example", [], None, None),
    ("cn-not-hostname", "Example Corp Server", [], None, None),
    ("cn-ip", "203.0.113.5", [], None, None),
    ("san-list", None, [("dns", "up1.example"), ("dns", "*.up.example"), ("ip", "203.0.113.5")], None, None),
    ("cn+san+org", "upstream.example", [("dns", "upstream.example"), ("dns", "alt.example")], "Upstream Org", None),
    ("dup-of-sni", "example.com", [("dns", "example.com"), ("ip", "192.0.2.7")], None, None),
    ("crl-dp", "upstream.example", [("dns", "upstream.example")], None, "http://crl.upstream.example/ca.crl"),
    ("cn-64-chars", CN64, [("dns", "upstream.example")], None, None),
    # the origin's certificate names the addresses the client uses as dNSName entries (seen on appliances): same text, other name type
    ("ip-as-dnsname", None, [("dns", "192.0.2.7"), ("dns", "192.0.2.1"), ("dns", "origin.example")], None, None),
]
# thorough tier: a few more classes
SNI_MORE = [("single-label", "intranet", ("dns", "intranet"), ("dns", "intranet")),
            ("deep-name", "a.b.c.d.e.example.com", ("dns", "a.b.c.d.e.example.com"), ("dns", "a.b.c.d.e.example.com")),
            ("idn-mixed", "www.bücher.example", ("dns", "www.xn--bcher-kva.example"), ("dns", "www.xn--bcher-kva.example"))]
UPSTREAM_MORE = [("cn-leading-dot", ".upstream.example", [("dns", "upstream.example")], None, None),
                 ("cn-empty-label", "upstream..example", [], None, None),
                 ("cn-punctuation", "Example Corp, Inc.", [("dns", "upstream.example")], "Example Corp, Inc.", None)]
ALL_UPSTREAM = UPSTREAM + UPSTREAM_MORE

_OPTS = None
_CAS = {}
_UP = {}
_TMP = []


def _gn(kind, value):
    return x509.DNSName(value) if kind == "dns" else x509.IPAddress(ipaddress.ip_address(value))


def _norm(g):
    """comparison key of a GeneralName: DNS case-insensitive, IP by packed bytes (zone ids are not encoded)"""
    if isinstance(g, x509.DNSName):
        return ("dns", g.value.lower())
    if isinstance(g, x509.IPAddress):
        return ("ip", g.value.packed)
    return (type(g).__name__, str(g.value))


def _tmpdir():
    d = Path(tempfile.mkdtemp(prefix="verif-c16-"))
    _TMP.append(d)
    return d


@atexit.register
def _cleanup():
    for d in _TMP:
        shutil.rmtree(d, ignore_errors=True)


def _ski_rfc7093(pub):
    der = pub.public_bytes(serialization.Encoding.DER, serialization.PublicFormat.PKCS1)
    h = hashes.Hash(hashes.SHA256())
    h.update(der)
    return x509.SubjectKeyIdentifier(h.finalize()[:20])


def _ca(kind):
    """-> (CertStore, [trusted root x509 certificates]); generated once per process"""
    if kind in _CAS:
        return _CAS[kind]
    d = _tmpdir()
    if kind == "mitmproxy-default":
        store = certs.CertStore.from_store(d, "mitmproxy", 2048)  # real create_store/create_ca + from_files
        roots = [store.default_ca.to_cryptography()]
    else:
        now = datetime.datetime.now(datetime.timezone.utc)
        rkey = ec.generate_private_key(ec.SECP256R1())
        rname = x509.Name([x509.NameAttribute(NameOID.COMMON_NAME, "Corp Root")])
        root = (x509.CertificateBuilder().subject_name(rname).issuer_name(rname).public_key(rkey.public_key())
                .serial_number(x509.random_serial_number()).not_valid_before(now - datetime.timedelta(days=10))
                .not_valid_after(now + datetime.timedelta(days=3650))
                .add_extension(x509.BasicConstraints(ca=True, path_length=None), critical=True)
                .add_extension(x509.KeyUsage(False, False, False, False, False, True, True, False, False), critical=True)
                .add_extension(x509.SubjectKeyIdentifier.from_public_key(rkey.public_key()), critical=False)
                .sign(rkey, hashes.SHA256()))
        ikey = rsa.generate_private_key(public_exponent=65537, key_size=2048)
        iname = x509.Name([x509.NameAttribute(NameOID.COMMON_NAME, "Corp Interception CA"), x509.NameAttribute(NameOID.ORGANIZATION_NAME, "Corp")])
        inter = (x509.CertificateBuilder().subject_name(iname).issuer_name(rname).public_key(ikey.public_key())
                 .serial_number(x509.random_serial_number()).not_valid_before(now - datetime.timedelta(days=5))
                 .not_valid_after(now + datetime.timedelta(days=1000))
                 .add_extension(x509.BasicConstraints(ca=True, path_length=0), critical=True)
                 .add_extension(x509.KeyUsage(True, False, False, False, False, True, True, False, False), critical=True)
                 .add_extension(_ski_rfc7093(ikey.public_key()), critical=False)  # NOT the SHA-1 method
                 .add_extension(x509.AuthorityKeyIdentifier.from_issuer_public_key(rkey.public_key()), critical=False)
                 .sign(rkey, hashes.SHA256()))
        f = d / "corp-ca.pem"
        f.write_bytes(ikey.private_bytes(serialization.Encoding.PEM, serialization.PrivateFormat.TraditionalOpenSSL, serialization.NoEncryption())
                      + inter.public_bytes(serialization.Encoding.PEM) + root.public_bytes(serialization.Encoding.PEM))
        store = certs.CertStore.from_files(f, d / "dhparam.pem")
        roots = [root]
    shutil.rmtree(d, ignore_errors=True)  # everything needed was read by from_store / from_files
    _CAS[kind] = (store, roots)
    return _CAS[kind]


def _upstream(cls):
    """real certs.Cert for the upstream server, signed by a throw-away EC key"""
    if cls in _UP:
        return _UP[cls]
    _, cn, sans, org, crl = next(u for u in ALL_UPSTREAM if u[0] == cls)
    key = ec.generate_private_key(ec.SECP256R1())
    attrs = []
    if cn is not None:
        attrs.append(x509.NameAttribute(NameOID.COMMON_NAME, cn))
    if org is not None:
        attrs.append(x509.NameAttribute(NameOID.ORGANIZATION_NAME, org))
    now = datetime.datetime.now(datetime.timezone.utc)
    b = (x509.CertificateBuilder().subject_name(x509.Name(attrs)).issuer_name(x509.Name([x509.NameAttribute(NameOID.COMMON_NAME, "Some Public CA")]))
         .public_key(key.public_key()).serial_number(x509.random_serial_number())
         .not_valid_before(now - datetime.timedelta(days=1)).not_valid_after(now + datetime.timedelta(days=90)))
    if sans:
        b = b.add_extension(x509.SubjectAlternativeName([_gn(k, v) for k, v in sans]), critical=False)
    if crl:
        b = b.add_extension(x509.CRLDistributionPoints([x509.DistributionPoint([x509.UniformResourceIdentifier(crl)], None, None, None)]), critical=False)
    _UP[cls] = certs.Cert(b.sign(key, hashes.SHA256()))
    return _UP[cls]


class _Opts:
    def __init__(self, upstream_cert):
        self.upstream_cert = upstream_cert


def h_cert(X, ca_kinds, sni_menu, up_menu):
    global _OPTS
    if _OPTS is None:
        _OPTS = sansio.make_options()
    ca_kind = X.choose("ca", ca_kinds)
    sni_cls, sni, sni_exp, subject = X.choose("sni", sni_menu)
    if sni is None:
        sock_cls, sock, sock_ip = X.choose("sockname", SOCK)
    else:
        sock_cls, sock, sock_ip = SOCK[0]
    addr_cls, addr, addr_exp = X.choose("server_address", ADDR)
    up_cls = X.choose("upstream_cert_class", [u[0] for u in up_menu])
    use_upstream = X.boolean("upstream_cert_option") if up_cls != "none" else True
    if addr == "=":
        addr, addr_exp = (sni, sni_exp) if sni is not None else (sock, ("ip", sock_ip))
    requested = sni_exp if sni is not None else ("ip", sock_ip)
    if subject is None:
        subject = ("ip", sock_ip)

    store, roots = _ca(ca_kind)
    store.certs = {}
    store.expire_queue = []
    client = connection.Client(peername=("192.0.2.99", 50000), sockname=(sock, 8080), timestamp_start=1.0)
    client.sni = sni
    cctx = context.Context(client, _OPTS)
    if addr is not None:
        cctx.server.address = (addr, 443)
    _, up_cn, up_sans, up_org, up_crl = next(u for u in ALL_UPSTREAM if u[0] == up_cls)
    if up_cls != "none":
        cctx.server.certificate_list = [_upstream(up_cls)]
    tc = tlsconfig.TlsConfig()
    tc.certstore = store
    saved = getattr(mctx, "options", None)
    mctx.options = _Opts(use_upstream)
    cfg = f"sni={sni_cls} sock={sock_cls} addr={addr_cls} upstream={up_cls} upstream_cert={use_upstream} ca={ca_kind}"
    try:
        try:
            entry = tc.get_cert(cctx)
        except Exception as e:  # noqa  the property allows no exception: a certificate must be presented
            upk = up_cls if (use_upstream and up_cls != "none") else "-"
            where = f"upstream={upk}" if upk != "-" else f"sni={sni_cls}/addr={addr_cls}"
            X.fail(f"C16/get_cert-raises/{type(e).__name__}/{where}", f"{cfg}: {type(e).__name__}: {e}")
    finally:
        mctx.options = saved
    X.reach("got-cert")
    leaf = entry.cert.to_cryptography()
    ca_cert = store.default_ca.to_cryptography()

    # ---- selection logic, read off the real certificate
    try:
        san_ext = leaf.extensions.get_extension_for_class(x509.SubjectAlternativeName)
    except x509.ExtensionNotFound:
        X.fail("C16/san/missing", f"{cfg}: no subjectAltName")
    sans = list(san_ext.value)
    keys = [_norm(g) for g in sans]
    allowed = {_norm(_gn(*requested))}
    if addr_exp is not None:
        allowed.add(_norm(_gn(*addr_exp)))
    upstream_names = set()
    if use_upstream and up_cls != "none":
        if up_cn is not None:
            try:
                upstream_names.add(("ip", ipaddress.ip_address(up_cn).packed))
            except ValueError:
                upstream_names.add(("dns", up_cn.lower()))
        upstream_names |= {_norm(_gn(k, v)) for k, v in up_sans}
        X.reach("upstream-names-used")
    extra = [k for k in keys if k not in allowed | upstream_names]
    X.check(not extra, f"C16/san/foreign-name/sni={sni_cls}/upstream={up_cls}", f"{cfg}: SAN entries {extra} come from none of SNI/local address, server address, upstream certificate; SAN={sans}")
    X.check(_norm(_gn(*requested)) in keys, f"C16/san/requested-identity-missing/sni={sni_cls}", f"{cfg}: requested identity {requested} not in SAN {sans}")
    X.check(len(set(sans)) == len(sans), f"C16/san/duplicate/sni={sni_cls}/addr={addr_cls}/upstream={up_cls}", f"{cfg}: duplicate SAN entries {sans}")
    if len(keys) > 1:
        X.reach("multi-san")
    cn_attr = leaf.subject.get_attributes_for_oid(NameOID.COMMON_NAME)
    if cn_attr:
        X.reach("has-cn")
        cnv = cn_attr[0].value
        try:
            cnk = ("ip", ipaddress.ip_address(cnv).packed)
        except ValueError:
            cnk = ("dns", cnv.lower())
        # the CN is text: it may spell a permitted name of either type (an upstream dNSName entry "192.0.2.7" is a permitted source)
        X.check(cnk in allowed | upstream_names or ("dns", cnv.lower()) in allowed | upstream_names, f"C16/subject/foreign-cn/sni={sni_cls}", f"{cfg}: CN {cnv!r} from none of the permitted sources")
    else:
        X.reach("no-cn")
    org_attr = leaf.subject.get_attributes_for_oid(NameOID.ORGANIZATION_NAME)
    if org_attr:
        X.reach("has-org")
        X.check(use_upstream and org_attr[0].value == up_org, "C16/subject/foreign-organization", f"{cfg}: O={org_attr[0].value!r}, upstream O={up_org!r}")
    X.check(leaf.issuer == ca_cert.subject, "C16/issuer/not-the-ca", f"{cfg}: issuer {leaf.issuer} != CA subject {ca_cert.subject}")

    # ---- concrete verification of the real certificate
    now = datetime.datetime.now(datetime.timezone.utc)
    X.check(leaf.not_valid_before_utc <= now <= leaf.not_valid_after_utc, "C16/validity/now-outside-window",
            f"{cfg}: window {leaf.not_valid_before_utc} .. {leaf.not_valid_after_utc} does not contain {now}")
    try:
        eku = leaf.extensions.get_extension_for_class(x509.ExtendedKeyUsage).value
        eku_ok = ExtendedKeyUsageOID.SERVER_AUTH in eku
    except x509.ExtensionNotFound:
        eku_ok = False
    X.check(eku_ok, "C16/eku/serverAuth-missing", f"{cfg}: extendedKeyUsage lacks serverAuth")
    try:
        aki = leaf.extensions.get_extension_for_class(x509.AuthorityKeyIdentifier).value.key_identifier
    except x509.ExtensionNotFound:
        aki = None
    ski = ca_cert.extensions.get_extension_for_class(x509.SubjectKeyIdentifier).value.digest
    X.check(aki == ski, f"C16/aki/mismatch/ca={ca_kind}", f"{cfg}: AKI {aki.hex() if aki else None} != CA SKI {ski.hex()}")
    inter = [c.to_cryptography() for c in entry.chain_certs]
    try:
        verifier = verification.PolicyBuilder().store(verification.Store(roots)).time(now).build_server_verifier(_gn(*subject))
        verifier.verify(leaf, inter)
    except verification.VerificationError as e:
        X.fail(f"C16/verify/sni={sni_cls}/sock={sock_cls if sni is None else '-'}/ca={ca_kind}", f"{cfg}: strict verification for {subject} failed: {e}")
    X.reach("verified")
    if up_crl and use_upstream:
        try:
            dps = leaf.extensions.get_extension_for_class(x509.CRLDistributionPoints).value
            X.reach("crl-dp")
            url = dps[0].full_name[0].value
            X.check(url.startswith("http://crl.upstream.example/mitmproxy-"), "C16/crl/foreign-url", f"{cfg}: CRL DP {url!r}")
        except x509.ExtensionNotFound:
            pass


# ---------------------------------------------------------------------------------------------------------
# validity window arithmetic (engine C)


def _seconds(name):
    node = smt.find_assign(CERTS_PY, name)
    v = eval(compile(ast.Expression(node), "<lifted>", "eval"), {"__builtins__": {}, "datetime": datetime})  # literal timedelta(...) expression
    if not isinstance(v, datetime.timedelta):
        raise smt.AnchorNotFound(f"{name} is not a timedelta literal")
    return int(v.total_seconds())


def _build_validity():
    fn = smt.find_function(CERTS_PY, "dummy_cert")
    now_ok = any(isinstance(n, ast.Assign) and isinstance(n.targets[0], ast.Name) and n.targets[0].id == "now"
                 and ast.unparse(n.value) == "datetime.datetime.now()" for n in ast.walk(fn))
    if not now_ok:
        raise smt.AnchorNotFound("dummy_cert: `now = datetime.datetime.now()`")
    args = {}
    for n in ast.walk(fn):
        if isinstance(n, ast.Call) and isinstance(n.func, ast.Attribute) and n.func.attr in ("not_valid_before", "not_valid_after") and n.args:
            args[n.func.attr] = n.args[0]
    if set(args) != {"not_valid_before", "not_valid_after"}:
        raise smt.AnchorNotFound("dummy_cert: not_valid_before/not_valid_after calls")
    utc, tz = z3.Int("utc"), z3.Int("tz")

    def tr(e):
        if isinstance(e, ast.Name):
            return utc + tz if e.id == "now" else z3.IntVal(_seconds(e.id))
        if isinstance(e, ast.BinOp) and isinstance(e.op, (ast.Add, ast.Sub)):
            a, b = tr(e.left), tr(e.right)
            return a + b if isinstance(e.op, ast.Add) else a - b
        if isinstance(e, ast.Attribute) and isinstance(e.value, ast.Name) and e.value.id == "certs":
            return z3.IntVal(_seconds(e.attr))
        raise smt.AnchorNotFound(f"unsupported validity expression {ast.unparse(e)}")

    nb, na = tr(args["not_valid_before"]), tr(args["not_valid_after"])
    dom = [utc >= 1_600_000_000, utc <= 4_000_000_000, tz >= -14 * 3600, tz <= 14 * 3600]

    def replay(w):
        store, _ = _ca("mitmproxy-default")
        fixed = datetime.datetime.fromtimestamp(w["utc"], datetime.timezone.utc).replace(tzinfo=None) + datetime.timedelta(seconds=w["tz"])

        class _DT(datetime.datetime):
            @classmethod
            def now(cls, tz=None):
                return fixed

        shim = types.SimpleNamespace(datetime=_DT, timedelta=datetime.timedelta, UTC=datetime.UTC, timezone=datetime.timezone)
        saved = certs.datetime
        certs.datetime = shim
        try:
            c = certs.dummy_cert(store.default_privatekey, store.default_ca.to_cryptography(), "example.com", [x509.DNSName("example.com")])
        finally:
            certs.datetime = saved
        inst = datetime.datetime.fromtimestamp(w["utc"], datetime.timezone.utc)
        bad = not (c.notbefore <= inst <= c.notafter)
        return bad, f"issued at {inst} with local UTC offset {w['tz']}s: window {c.notbefore} .. {c.notafter} does not contain the instant of issue"

    return [
        smt.Query("not_before <= instant of issue", dom + [nb > utc], key="C16/validity/not-before-after-issue", witness_vars=[utc, tz], replay=replay),
        smt.Query("instant of issue <= not_after", dom + [na < utc], key="C16/validity/not-after-before-issue", witness_vars=[utc, tz], replay=replay),
        smt.Query("window non-empty and at least one day long", dom + [na - nb < 86400], key="C16/validity/window-too-short", witness_vars=[utc, tz], replay=replay),
    ]


def obligations(tier):
    cas = ["mitmproxy-default", "custom-intermediate-rfc7093-ski"]
    sni = SNI if tier == "quick" else SNI + SNI_MORE
    ups = UPSTREAM if tier == "quick" else ALL_UPSTREAM
    return [
        Symx("cert-for-identity", lambda X: h_cert(X, cas, sni, ups),
             bounds=f"{len(sni)} SNI classes x {len(SOCK)} local addresses (no-SNI case) x {len(ADDR)} server-address classes x {len(ups)} upstream-certificate classes "
                    f"x upstream_cert on/off x {len(cas)} CAs; each configuration: real get_cert + real dummy_cert + strict X.509 verification (concrete execution)",
             encoded=ENCODED, must_reach=["got-cert", "verified", "upstream-names-used", "multi-san", "has-cn", "no-cn", "has-org", "crl-dp"],
             stubs=["mitmproxy.ctx.options -> object with upstream_cert only"], parallel_depth=2),
        Smt("validity-window", _build_validity, bounds="all instants of issue 2020..2096 x all local UTC offsets -14h..+14h; expressions and constants lifted from certs.py",
            encoded=["mitmproxy.certs:dummy_cert"]),
    ]
