"""C34 — query / cookie / form / path views are lossless.

The real view code (`Request.query`, `.cookies`, `.urlencoded_form`, `.multipart_form`, `.path_components` and their
setters, `Response.cookies`, `MultiDictView`, `url.encode/decode/quote/unquote`, `cookies.*`, `multipart.*`) is executed
on solver-chosen pair lists: every key/value is a sequence of 0-2 units from a per-format alphabet partition
(separators, quotes, SP, %, +, CR, LF, NUL, "--", non-ASCII, surrogate-escaped byte, percent-escape look-alike).
Per format the precondition "representable" is the format's own rule from vf/refs/formsref.py.  Checked:
  readback   view = pairs; list(view.items(multi=True)) == pairs
  wire       (query, urlencoded, multipart, path) an independent parser of the wire bytes yields the same pairs
  untouched  the rest of the message (path/params/fragment, other headers) is unchanged
  writeback  assigning a view's current value back leaves the parsed meaning unchanged
`writeback-existing` does the last check on a menu of pre-existing raw messages per view.
"""
from vf.ob import Symx
from vf.refs import formsref as R

LEVEL = "model_checking"
ASSUMPTIONS = [
    "representability rules and wire parsers are those of vf/refs/formsref.py (WHATWG urlencoded, RFC 6265 + quoted-string tier, RFC 7578/2046, RFC 3986)",
    "text stands for bytes under UTF-8/surrogateescape (mitmproxy's documented convention); strings that are not the image of a byte string are not representable",
    "multipart names are non-empty (RFC 7578 requires a name parameter; an empty one is not produced by any form) and contain no DQUOTE/CR/LF",
    "request fixture = mitmproxy.test.tutils.treq()/tresp()",
]
OUTSIDE = ["Set-Cookie attribute handling beyond name/value and the attribute menu", "keys/values longer than 2 units (3 for cookie values)",
           "pair lists longer than the bound", "content-encodings on the body (C31)",
           "pre-existing urlencoded bodies with raw (not percent-encoded) non-ASCII bytes, and the asterisk-form target `*` (neither is a valid instance of the format)"]
ENCODED = [
    "mitmproxy.http:Request._get_query", "mitmproxy.http:Request._set_query", "mitmproxy.http:Request._get_cookies", "mitmproxy.http:Request._set_cookies",
    "mitmproxy.http:Request._get_urlencoded_form", "mitmproxy.http:Request._set_urlencoded_form", "mitmproxy.http:Request._get_multipart_form",
    "mitmproxy.http:Request._set_multipart_form", "mitmproxy.http:Request.path_components", "mitmproxy.http:Response._get_cookies",
    "mitmproxy.http:Response._set_cookies", "mitmproxy.coretypes.multidict:MultiDictView.fields", "mitmproxy.coretypes.multidict:_MultiDict.items",
    "mitmproxy.net.http.url:encode", "mitmproxy.net.http.url:decode", "mitmproxy.net.http.url:quote", "mitmproxy.net.http.url:unquote",
    "mitmproxy.net.http.cookies:_format_pairs", "mitmproxy.net.http.cookies:_read_cookie_pairs", "mitmproxy.net.http.cookies:_read_set_cookie_pairs",
    "mitmproxy.net.http.cookies:format_set_cookie_header", "mitmproxy.net.http.cookies:parse_set_cookie_header",
    "mitmproxy.net.http.multipart:encode_multipart", "mitmproxy.net.http.multipart:decode_multipart",
]

QA = ["a", "&", "=", ";", " ", "%", "+", "#", "\n", "\x00", "é", "\udcff", "%41"]
QC = ["a", "&", "=", "%", "+", "é"]
CA = ["a", "=", ";", ",", '"', " ", "\\", "%", "é", "\x7f", "\n"]
CC = ["a", "=", ";", '"', " "]
MA = [b"a", b"\r", b"\n", b"\r\n", b"--", b'"', b"\x00", b"\xc3\xa9", b"\xff", b" ", b"=", b"B"]
MC = [b"a", b"\r\n", b"--", b"B"]
PA = ["a", "/", "%", "?", "#", ";", " ", ".", "é", "\udcff", "\x00", "%2F"]
PC = ["a", "/", "%", "."]
EXTRA_T = ["\ud800", "\r"]  # thorough: an unrepresentable lone surrogate (exercises the precondition) and CR


LAST_N = [0]


def gen(X, tag, alpha, maxlen, empty=""):
    n = X.choose(tag + "len", maxlen + 1)
    LAST_N[0] = n
    return empty[:0].join([X.choose(tag, alpha) for _ in range(n)]) if n else empty[:0]


def second_max(tier, maxlen):
    """quick tier: key and value together have at most 3 units (each still 0-2); thorough: independent"""
    return maxlen if tier != "quick" else min(maxlen, 3 - LAST_N[0])


def _pairs(X, tier, alpha, core, extra=()):
    """shape 'one': a single pair with keys/values of 0-2 units over the full alphabet;
    shape 'many': 0..N pairs with keys/values of 0-1 unit over the core alphabet"""
    shape = X.choose("shape", ["one", "many"])
    if tier != "quick":
        alpha = alpha + [e for e in extra if e not in alpha]
    if shape == "one":
        k = gen(X, "k", alpha, 2)
        return shape, [(k, gen(X, "v", alpha, second_max(tier, 2)))]
    n = X.choose("npairs", 3 if tier == "quick" else 4)
    cr = core if n < 3 else core[:4]  # thorough: three pairs over the first four core symbols (two pairs: the whole core, as in quick)
    return shape, [(gen(X, "k", cr, 1), gen(X, "v", cr, 1)) for _ in range(n)]


def _tuples(view):
    return [tuple(p) for p in view.items(multi=True)]


def _split_target(path_b):
    """request-target -> (path incl. ;params, query or None, fragment or None), by hand (RFC 3986 3.)"""
    frag = None
    if b"#" in path_b:
        path_b, frag = path_b.split(b"#", 1)
    q = None
    if b"?" in path_b:
        path_b, q = path_b.split(b"?", 1)
    return path_b, q, frag


# ------------------------------------------------------------------------------------------

def h_query(X, tier):
    from mitmproxy.test import tutils

    shape, pairs = _pairs(X, tier, QA, QC, EXTRA_T)
    X.assume(R.urlencoded_representable(pairs))
    # (a path may legitimately begin with two slashes: its first segment must not be mistaken for an authority)
    base = X.choose("base", [b"/path", b"/p;par?old=1&x#frag", b"//cdn/lib.js?v=1"]) if shape == "many" else X.choose("base1", [b"/path", b"//cdn/lib.js?v=1"])
    req = tutils.treq(path=base)
    other_headers = list(req.headers.fields)
    try:
        req.query = pairs
        got = _tuples(req.query)
    except Exception as e:  # noqa: BLE001 - any exception on representable input is a failure of the view
        X.fail("C34/query/raises", f"query = {pairs!r}: {type(e).__name__}: {e}")
    X.reach("assigned")
    X.check(got == pairs, "C34/query/readback", f"query = {pairs!r} on {base!r} reads back {got!r} (path {req.data.path!r})")
    p0, _, f0 = _split_target(base)
    p1, q1, f1 = _split_target(req.data.path)
    X.check(R.urlencoded_parse(q1 or b"") == pairs, "C34/query/wire", f"query = {pairs!r} is written as {q1!r}, which a WHATWG parser reads as {R.urlencoded_parse(q1 or b'')!r}")
    X.check(p1 == p0 and f1 == f0 and list(req.headers.fields) == other_headers, "C34/query/untouched", f"setting the query changed path/fragment/headers: {base!r} -> {req.data.path!r}")
    req.query = list(req.query.items(multi=True))
    X.check(_tuples(req.query) == pairs, "C34/query/writeback", f"writing the query view back changed it: {_tuples(req.query)!r} != {pairs!r}")


def h_form(X, tier):
    from mitmproxy.test import tutils

    shape, pairs = _pairs(X, tier, QA, QC, EXTRA_T)
    X.assume(R.urlencoded_representable(pairs))
    old = X.choose("old", [None, b"x=1&y=2", b"x&y"]) if shape == "many" else None
    req = tutils.treq()
    if old is not None:
        req.content = old
        req.headers["content-type"] = "application/x-www-form-urlencoded"
    keep = [f for f in req.headers.fields if f[0].lower() not in (b"content-type", b"content-length")]
    try:
        req.urlencoded_form = pairs
        got = _tuples(req.urlencoded_form)
    except Exception as e:  # noqa: BLE001
        X.fail("C34/urlencoded/raises", f"urlencoded_form = {pairs!r}: {type(e).__name__}: {e}")
    X.reach("assigned")
    lost_empty = ("", "") in pairs and got == [p for p in pairs if p != ("", "")]
    X.check(got == pairs, "C34/urlencoded/empty-pair-dropped" if lost_empty else "C34/urlencoded/readback",
            f"urlencoded_form = {pairs!r} (previous body {old!r}) reads back {got!r} (body {req.content!r})")
    X.check(R.urlencoded_parse(req.content) == pairs, "C34/urlencoded/wire", f"urlencoded_form = {pairs!r} is written as {req.content!r}, which a WHATWG parser reads as {R.urlencoded_parse(req.content)!r}")
    X.check("application/x-www-form-urlencoded" in req.headers.get("content-type", ""), "C34/urlencoded/content-type", "content-type not set")
    X.check([f for f in req.headers.fields if f[0].lower() not in (b"content-type", b"content-length")] == keep, "C34/urlencoded/untouched", "other headers changed")
    req.urlencoded_form = list(req.urlencoded_form.items(multi=True))
    X.check(_tuples(req.urlencoded_form) == pairs, "C34/urlencoded/writeback", f"writing the form view back changed it: {_tuples(req.urlencoded_form)!r} != {pairs!r}")


def _cookie_pairs(X, tier, vmax=3):
    shape = X.choose("shape", ["one", "many"])
    alpha = CA if tier == "quick" else CA + ["\ud800", "\r", "A"]
    pairs, tiers = [], []
    # (Set-Cookie, vmax == 2, is crossed with the attribute lists: its pair space stays at <= 2 pairs / values of <= 2 units)
    n = 1 if shape == "one" else X.choose("npairs", 3 if tier == "quick" or vmax < 3 else 4)
    for _ in range(n):
        k = gen(X, "k", alpha if shape == "one" else CC, 2 if shape == "one" else 1)
        X.assume(R.cookie_name_ok(k))
        v = gen(X, "v", alpha if shape == "one" else CC, vmax if shape == "one" else (1 if tier == "quick" else 2))
        t = R.cookie_value_tier(v)
        X.assume(t is not None)
        pairs.append((k, v))
        tiers.append(t)
    return pairs, ("quoted-string" if "quoted" in tiers else "rfc6265")


def h_cookies(X, tier):
    from mitmproxy.test import tutils

    pairs, t = _cookie_pairs(X, tier)
    req = tutils.treq()
    keep = list(req.headers.fields)
    try:
        req.cookies = pairs
        got = _tuples(req.cookies)
    except Exception as e:  # noqa: BLE001
        X.fail(f"C34/cookies/{t}/raises", f"cookies = {pairs!r}: {type(e).__name__}: {e}")
    X.reach("assigned")
    X.reach(t)
    X.check(got == pairs, f"C34/cookies/{t}/readback", f"cookies = {pairs!r} reads back {got!r} (Cookie: {req.headers.get_all('cookie')!r})")
    hv = req.headers.get_all("cookie")
    X.check(len(hv) == 1 and not any(c in hv[0] for c in "\r\n\x00"), f"C34/cookies/{t}/header", f"Cookie header fields: {hv!r}")
    X.check([f for f in req.headers.fields if f[0].lower() != b"cookie"] == keep, "C34/cookies/untouched", "other headers changed")
    req.cookies = list(req.cookies.items(multi=True))
    X.check(_tuples(req.cookies) == pairs, f"C34/cookies/{t}/writeback", f"writing the cookie view back changed it: {_tuples(req.cookies)!r} != {pairs!r}")


ATTRS = [(), (("Path", "/"),), (("HttpOnly", None), ("Max-Age", "3")), (("Expires", "Thu, 01 Jan 2030 00:00:00 GMT"), ("Secure", None))]


def _sc_norm(view):
    return [(k, v[0], tuple(tuple(f) for f in v[1].fields)) for k, v in view.items(multi=True)]


def h_setcookies(X, tier):
    from mitmproxy.net.http.cookies import CookieAttrs
    from mitmproxy.test import tutils

    pairs, t = _cookie_pairs(X, tier, vmax=2)
    attrs = [X.choose("attrs", ATTRS) for _ in pairs]
    resp = tutils.tresp()
    keep = list(resp.headers.fields)
    exp = [(k, v, tuple(a)) for (k, v), a in zip(pairs, attrs)]
    try:
        resp.cookies = [(k, (v, CookieAttrs(a))) for (k, v), a in zip(pairs, attrs)]
        got = _sc_norm(resp.cookies)
    except Exception as e:  # noqa: BLE001
        X.fail(f"C34/set-cookie/{t}/raises", f"response cookies = {exp!r}: {type(e).__name__}: {e}")
    X.reach("assigned")
    X.reach(t)
    X.check(got == exp, f"C34/set-cookie/{t}/readback", f"response cookies = {exp!r} read back {got!r} (Set-Cookie: {resp.headers.get_all('set-cookie')!r})")
    X.check(len(resp.headers.get_all("set-cookie")) == len(pairs), f"C34/set-cookie/{t}/header", "not one Set-Cookie field per cookie")
    X.check([f for f in resp.headers.fields if f[0].lower() != b"set-cookie"] == keep, "C34/set-cookie/untouched", "other headers changed")
    resp.cookies = list(resp.cookies.items(multi=True))
    X.check(_sc_norm(resp.cookies) == exp, f"C34/set-cookie/{t}/writeback", f"writing the cookie view back changed it: {_sc_norm(resp.cookies)!r}")


def _strip_breaks(b):
    return b.replace(b"\r", b"").replace(b"\n", b"")


def h_multipart(X, tier):
    from mitmproxy.net.http import headers as nh
    from mitmproxy.test import tutils

    shape = X.choose("shape", ["one", "many"])
    preset = X.boolean("preset_boundary")
    n = 1 if shape == "one" else X.choose("npairs", 3 if tier == "quick" else 4)
    pairs = []
    for _ in range(n):
        k = gen(X, "k", MA if shape == "one" else MC, 2 if shape == "one" else 1, empty=b"")
        X.assume(R.multipart_name_ok(k))
        v = gen(X, "v", MA if shape == "one" else MC, second_max(tier, 2) if shape == "one" else (1 if tier == "quick" or n == 3 else 2), empty=b"")
        if preset:
            X.assume(R.multipart_value_ok(v, b"B"))
        pairs.append((k, v))
    req = tutils.treq()
    if preset:
        req.headers["content-type"] = "multipart/form-data; boundary=B"
    keep = [f for f in req.headers.fields if f[0].lower() not in (b"content-type", b"content-length")]
    try:
        req.multipart_form = pairs
    except Exception as e:  # noqa: BLE001
        X.fail("C34/multipart/raises", f"multipart_form = {pairs!r} raises {type(e).__name__}({e}) although every value is representable")
    X.reach("assigned")
    ct = nh.parse_content_type(req.headers.get("content-type", ""))
    X.check(ct is not None and ct[:2] == ("multipart", "form-data") and "boundary" in ct[2], "C34/multipart/content-type", f"content-type {req.headers.get('content-type')!r}")
    boundary = ct[2]["boundary"].encode()
    X.assume(all(R.multipart_value_ok(v, boundary) for _, v in pairs))
    got = _tuples(req.multipart_form)
    if any(b"\r" in v or b"\n" in v for _, v in pairs):
        X.reach("linebreak-in-value")
    if got != pairs:
        key = "C34/multipart/readback"
        if len(got) == len(pairs) and all(g[0] == p[0] for g, p in zip(got, pairs)) and all(g[1] == _strip_breaks(p[1]) for g, p in zip(got, pairs)):
            key = "C34/multipart/value-linebreak-lost"
        elif any(b"--" + boundary in k or b"--" + boundary in v for k, v in pairs):
            # RFC 2046: only a delimiter at the start of a line ends a part; here it occurs inside a line
            key = "C34/multipart/boundary-inside-line"
        X.fail(key, f"multipart_form = {pairs!r} reads back {got!r} (body {req.content!r})")
    content_after_set = req.content
    X.check([f for f in req.headers.fields if f[0].lower() not in (b"content-type", b"content-length")] == keep, "C34/multipart/untouched", "other headers changed")
    req.multipart_form = list(req.multipart_form.items(multi=True))
    X.check(_tuples(req.multipart_form) == pairs, "C34/multipart/writeback", f"writing the multipart view back changed it: {_tuples(req.multipart_form)!r}")
    wire = R.multipart_parse(content_after_set, boundary)
    if wire != pairs:
        key = "C34/multipart/wire"
        if wire is not None and len(wire) == len(pairs) and all(w == (p[0], p[1] + b"\r\n") for w, p in zip(wire, pairs)):
            key = "C34/multipart/wire-trailing-crlf"
        X.fail(key, f"multipart_form = {pairs!r} is written as {content_after_set!r}, which an RFC 2046 parser reads as {wire!r}")


def h_path(X, tier):
    from mitmproxy.test import tutils

    alpha = PA if tier == "quick" else PA + EXTRA_T
    shape = X.choose("shape", ["one", "many"])
    if shape == "one":
        comps = [gen(X, "c", alpha, 2)]
        base = X.choose("base", [b"/old/path", b"/old;par?x=1&y#frag", b"/"])
    else:
        n = X.choose("ncomps", [0, 2] if tier == "quick" else [0, 2, 3])
        comps = []
        for _ in range(n):
            comps.append(gen(X, "c", alpha if n == 2 else PC, (second_max(tier, 2) if comps else 2) if n == 2 else 1))
        base = b"/old/path"
    X.assume(all(R.is_binary_safe_text(c) for c in comps))
    req = tutils.treq(path=base)
    keep = list(req.headers.fields)
    try:
        req.path_components = comps
        got = list(req.path_components)
    except Exception as e:  # noqa: BLE001
        X.fail("C34/path/raises", f"path_components = {comps!r}: {type(e).__name__}: {e}")
    X.reach("assigned")
    if "" in comps:
        X.reach("empty-component")
    if got != comps:
        key = "C34/path/empty-component-dropped" if got == [c for c in comps if c != ""] else "C34/path/readback"
        X.fail(key, f"path_components = {comps!r} reads back {got!r} (path {req.data.path!r})")
    p0, q0, f0 = _split_target(base)
    p1, q1, f1 = _split_target(req.data.path)
    par0 = p0.split(b";", 1)[1] if b";" in p0.rsplit(b"/", 1)[-1] else None
    last = p1.rsplit(b"/", 1)[-1]
    par1 = last.split(b";", 1)[1] if b";" in last else None
    p1_noparam = p1[: len(p1) - len(par1) - 1] if par1 is not None else p1
    X.check(q1 == q0 and f1 == f0 and par1 == par0 and list(req.headers.fields) == keep, "C34/path/untouched", f"setting path components changed params/query/fragment: {base!r} -> {req.data.path!r}")
    X.check(R.path_segments(p1_noparam.decode("utf-8", "surrogateescape")) == (comps or [""]), "C34/path/wire",
            f"path_components = {comps!r} is written as {p1_noparam!r} = segments {R.path_segments(p1_noparam.decode('utf-8', 'surrogateescape'))!r}")
    req.path_components = req.path_components
    X.check(list(req.path_components) == comps, "C34/path/writeback", f"writing path components back changed them: {req.path_components!r}")


# ------------------------------------------------------------------------------------------
# writing the current value of a view back into a pre-existing message

RAW_QUERY = [b"/p?a=1&b=2", b"/p?a&b=", b"/p?a=1&a=2", b"/p?a=%26%3D", b"/p?a=b=c", b"/p?a+b=c%20d", b"/p?=v", b"/p?&&a=1&", b"/p?a=1;b=2", b"/p;params?x=1#frag",
             b"/p?%ff=%80", b"/p?a=%E9", b"/p", b"/p?", b"/p?a=1#f?g=2", b"/p?x=%zz", b"/p?a=\xc3\xa9", b"/p?="]
RAW_FORM = [b"a=1&b=2", b"a&b=", b"a=1&a=2", b"=v", b"a==", b"a=%zz", b"a=%E9", b"a=1&&b=2", b"=", b"a=&=&b", b"", b"a=%26&%3D=b", b"a+b=c%20d"]
RAW_COOKIE = [["a=1; b=2"], ["a=1;b=2"], ["a=1; a=2"], ['a="x y"'], ["a"], ["=v"], ["a=b=c"], ['a="q\\"uote"'], ["a=1; ; b=2"], [" a=1"], ["a=1,b=2"], ["a=1", "b=2"], [""],
              ['a="'], ["a=é"], ['a="x"; b="y;z"']]
RAW_SETCOOKIE = [["a=1"], ["a=1; Path=/; HttpOnly"], ["a=1; Expires=Thu, 01 Jan 2030 00:00:00 GMT"], ['a="x y"; Max-Age=3'], ["a=1, b=2"], ["a="], ["a"], ["a=1", "b=2; Secure"],
                 ["a=1; Expires=Thu, 01-Jan-2030 00:00:00 GMT; Path=/"], ["a=1; Path=/, b=2; Path=/x"], ["a=b=c; Domain=x.y"], ['a="q\\"u"; Path="/p q"']]
_MP = b"--B\r\nContent-Disposition: form-data; name=\"%b\"\r\n\r\n%b\r\n"
RAW_MULTIPART = [_MP % (b"k", b"v") + b"--B--\r\n", _MP % (b"k", b"v") + _MP % (b"k", b"w") + b"--B--\r\n", _MP % (b"k", b"line1\r\nline2") + b"--B--\r\n",
                 _MP % (b"k", b"") + b"--B--\r\n", b"preamble\r\n" + _MP % (b"k", b"v") + b"--B--\r\nepilogue", _MP % (b"k", b"v\r\n") + b"--B--\r\n",
                 b"--B\r\nContent-Disposition: form-data; name=\"f\"; filename=\"x.txt\"\r\nContent-Type: text/plain\r\n\r\ndata\r\n--B--\r\n",
                 _MP % (b"k", b" v ") + b"--B--\r\n", b"--B--\r\n", _MP % (b"k", b"a\nb") + b"--B--\r\n"]
RAW_PATH = [b"/a/b", b"/a/b/", b"//a", b"/a//b", b"/a%2Fb/c", b"/a;p/b;q?x", b"/", b"/%E9", b"/a/./b", b"/a%20b", b"/a/b?q=1/2#f/g", b"/a/", b"/%2e%2e/a"]


def h_writeback(X):
    from mitmproxy.test import tutils

    view = X.choose("view", ["query", "urlencoded_form", "cookies", "set-cookie", "multipart_form", "path_components"])
    X.reach(view)
    if view == "query":
        raw = X.choose("raw", RAW_QUERY)
        req = tutils.treq(path=raw)
        before, wire0 = _tuples(req.query), R.urlencoded_parse(_split_target(raw)[1] or b"")
        req.query = list(req.query.items(multi=True))
        after, wire1 = _tuples(req.query), R.urlencoded_parse(_split_target(req.data.path)[1] or b"")
        X.check(after == before, "C34/query/writeback-existing", f"{raw!r}: query {before!r} -> rewritten {req.data.path!r} -> {after!r}")
        X.check(wire1 == wire0, "C34/query/writeback-existing-wire", f"{raw!r} -> {req.data.path!r}: WHATWG meaning {wire0!r} -> {wire1!r}")
        X.check(_split_target(req.data.path)[0] == _split_target(raw)[0] and _split_target(req.data.path)[2] == _split_target(raw)[2], "C34/query/writeback-existing-untouched", f"{raw!r} -> {req.data.path!r}")
    elif view == "urlencoded_form":
        raw = X.choose("raw", RAW_FORM)
        req = tutils.treq(content=raw)
        req.headers["content-type"] = "application/x-www-form-urlencoded"
        before, wire0 = _tuples(req.urlencoded_form), R.urlencoded_parse(raw)
        req.urlencoded_form = list(req.urlencoded_form.items(multi=True))
        after, wire1 = _tuples(req.urlencoded_form), R.urlencoded_parse(req.content)
        lost_empty = ("", "") in before and after == [p for p in before if p != ("", "")]
        X.check(after == before, "C34/urlencoded/empty-pair-dropped" if lost_empty else "C34/urlencoded/writeback-existing", f"{raw!r}: form {before!r} -> rewritten {req.content!r} -> {after!r}")
        X.check(wire1 == wire0 or not R.urlencoded_representable(wire0), "C34/urlencoded/writeback-existing-wire", f"{raw!r} -> {req.content!r}: WHATWG meaning {wire0!r} -> {wire1!r}")
    elif view == "cookies":
        raw = X.choose("raw", RAW_COOKIE)
        req = tutils.treq()
        req.headers.set_all("cookie", raw)
        before = _tuples(req.cookies)
        req.cookies = list(req.cookies.items(multi=True))
        after = _tuples(req.cookies)
        X.check(after == before, "C34/cookies/writeback-existing", f"Cookie {raw!r}: {before!r} -> rewritten {req.headers.get_all('cookie')!r} -> {after!r}")
    elif view == "set-cookie":
        raw = X.choose("raw", RAW_SETCOOKIE)
        resp = tutils.tresp()
        resp.headers.set_all("set-cookie", raw)
        before = _sc_norm(resp.cookies)
        resp.cookies = list(resp.cookies.items(multi=True))
        after = _sc_norm(resp.cookies)
        X.check(after == before, "C34/set-cookie/writeback-existing", f"Set-Cookie {raw!r}: {before!r} -> rewritten {resp.headers.get_all('set-cookie')!r} -> {after!r}")
    elif view == "multipart_form":
        raw = X.choose("raw", RAW_MULTIPART)
        req = tutils.treq(content=raw)
        req.headers["content-type"] = "multipart/form-data; boundary=B"
        before, wire0 = _tuples(req.multipart_form), R.multipart_parse(raw, b"B")
        req.multipart_form = list(req.multipart_form.items(multi=True))
        after, wire1 = _tuples(req.multipart_form), R.multipart_parse(req.content, b"B")
        X.check(after == before, "C34/multipart/writeback-existing", f"{raw!r}: {before!r} -> rewritten {req.content!r} -> {after!r}")
        if wire1 != wire0:
            key = "C34/multipart/writeback-existing-wire"
            if wire0 is not None and wire1 is not None and len(wire0) == len(wire1):
                if all(b == (a[0], _strip_breaks(a[1]) + b"\r\n") or b == (a[0], a[1] + b"\r\n") for a, b in zip(wire0, wire1)):
                    key = "C34/multipart/value-linebreak-lost" if any(_strip_breaks(a[1]) != a[1] for a in wire0) else "C34/multipart/wire-trailing-crlf"
            X.fail(key, f"{raw!r} -> {req.content!r}: RFC 2046 meaning {wire0!r} -> {wire1!r}")
    else:
        raw = X.choose("raw", RAW_PATH)
        req = tutils.treq(path=raw)
        before = list(req.path_components)
        seg0 = R.path_segments(_noparam(_split_target(raw)[0]))
        req.path_components = req.path_components
        after = list(req.path_components)
        seg1 = R.path_segments(_noparam(_split_target(req.data.path)[0]))
        X.check(after == before, "C34/path/writeback-existing", f"{raw!r}: {before!r} -> rewritten {req.data.path!r} -> {after!r}")
        if seg1 != seg0:
            key = "C34/path/empty-segment-lost" if seg0 is not None and seg1 is not None and [s for s in seg0 if s] == [s for s in seg1 if s] else "C34/path/writeback-existing-wire"
            X.fail(key, f"{raw!r} -> {req.data.path!r}: RFC 3986 segments {seg0!r} -> {seg1!r}")
        X.check(_split_target(req.data.path)[1:] == _split_target(raw)[1:], "C34/path/writeback-existing-untouched", f"{raw!r} -> {req.data.path!r}")


def _noparam(p):
    last = p.rsplit(b"/", 1)[-1]
    if b";" in last:
        p = p[: len(p) - len(last.split(b";", 1)[1]) - 1]
    return p.decode("utf-8", "surrogateescape")


def obligations(tier):
    b = "keys/values of 0-2 units%s over the per-format alphabet for one pair; 0-1 unit over the core alphabet for %s pairs" % (
        (" (together <= 3 units)", "<= 2") if tier == "quick" else ("", "<= 2 pairs, or 3 pairs over the first four core symbols: <= 3"))
    mk = lambda h: (lambda X: h(X, tier))  # noqa: E731
    return [
        Symx("query", mk(h_query), bounds=f"Request.query: {b}; alphabet {QA!r}, core {QC!r}; base targets with params/old query/fragment", encoded=ENCODED, must_reach=["assigned"], parallel_depth=3),
        Symx("urlencoded-form", mk(h_form), bounds=f"Request.urlencoded_form: {b}; alphabet {QA!r}; previous body absent / 'x=1&y=2' / 'x&y'", encoded=ENCODED, must_reach=["assigned"], parallel_depth=3),
        Symx("cookies", mk(h_cookies), bounds=f"Request.cookies: one pair (name 0-2, value 0-3 units over {CA!r}) or <= {2 if tier == 'quick' else 3} pairs over {CC!r}; RFC 6265 tier and quoted-string tier keyed separately",
             encoded=ENCODED, must_reach=["assigned", "rfc6265", "quoted-string"], parallel_depth=3),
        Symx("set-cookie", mk(h_setcookies), bounds=f"Response.cookies: one pair (name 0-2, value 0-2 units) or <= 2 pairs (values of <= {1 if tier == 'quick' else 2} units) x {len(ATTRS)} attribute lists", encoded=ENCODED, must_reach=["assigned", "rfc6265", "quoted-string"], parallel_depth=3),
        Symx("multipart-form", mk(h_multipart), bounds=f"Request.multipart_form: one pair (0-2 units over {MA!r}) or <= {2 if tier == 'quick' else 3} pairs over {MC!r} (values of <= {'1 unit' if tier == 'quick' else '2 units for two pairs, 1 unit for three'}); boundary preset 'B' or generated",
             encoded=ENCODED, must_reach=["assigned", "linebreak-in-value"], parallel_depth=3),
        Symx("path-components", mk(h_path), bounds=f"Request.path_components: one component (0-2 units over {PA!r}) on 3 base targets, or 2 components (0-2 units)" + ("" if tier == "quick" else ", or 3 components (0-1 unit, core)"),
             encoded=ENCODED, must_reach=["assigned", "empty-component"], parallel_depth=3),
        Symx("writeback-existing", h_writeback, bounds=f"view := view on pre-existing raw messages: {len(RAW_QUERY)} targets, {len(RAW_FORM)} form bodies, {len(RAW_COOKIE)} Cookie, {len(RAW_SETCOOKIE)} Set-Cookie, "
             f"{len(RAW_MULTIPART)} multipart bodies, {len(RAW_PATH)} paths", encoded=ENCODED, must_reach=["query", "urlencoded_form", "cookies", "set-cookie", "multipart_form", "path_components"]),
    ]
