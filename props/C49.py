"""C49 — mitmdump output cannot inject terminal control sequences.

The real `Dumper` addon (all its hooks: response / error / websocket_message / websocket_end / tcp_* / udp_* /
dns_*) writes into a StringIO while one attacker-controlled field of the flow carries a solver-chosen
character from a class-representative menu (C0 controls incl. ESC, DEL, C1 controls incl. CSI U+009B,
tab / newline / CR, printable ASCII, non-ASCII), at every flow_detail level with styling on and off.  DNS
flows are built from wire bytes through the real `DNSMessage.unpack`.  mitmdump's own styling is removed
by deleting exactly the SGR strings `miniclick.style` produced during that run (a recording pass-through
wrapper); whatever control character (Unicode Cc) other than tab / newline / CR is left is a violation.
The escaping primitives themselves are decided over ALL code points / all bytes (CrossHair per-code-point
kernels, Symx over the 256 byte values).
"""
import io
import struct
import unicodedata

from vf.ob import Symx, Chx

LEVEL = "model_checking"
ASSUMPTIONS = [
    "control character = Unicode general category Cc (C0, DEL, C1); tab, newline and CR are allowed",
    "mitmdump's own styling = exactly the SGR strings the vendored click.style() returned during the run (recording pass-through wrapper around "
    "mitmproxy.contrib.click.style; the wrapper does not change what is written)",
    "the hostile field is 'x' + character + 'y' (one hostile character per flow); the other fields are benign",
    "terminal width (shutil.get_terminal_size) is whatever the environment reports; only truncation depends on it",
]
OUTSIDE = ["flows with two hostile fields at once", "characters of category Cf (bidi overrides) / Zl / Zp: not control characters in the property's sense",
           "the event log / termlog addon (messages logged by other addons)", "Rust content views are executed natively (mitmproxy_rs)"]
ENCODED = ["mitmproxy.addons.dumper:Dumper.echo_flow", "mitmproxy.addons.dumper:Dumper._echo_headers", "mitmproxy.addons.dumper:Dumper._echo_message",
           "mitmproxy.addons.dumper:Dumper._echo_request_line", "mitmproxy.addons.dumper:Dumper._echo_response_line", "mitmproxy.addons.dumper:Dumper.websocket_message",
           "mitmproxy.addons.dumper:Dumper.websocket_end", "mitmproxy.addons.dumper:Dumper._proto_message", "mitmproxy.addons.dumper:Dumper._proto_error",
           "mitmproxy.addons.dumper:Dumper._echo_dns_query", "mitmproxy.addons.dumper:Dumper.dns_response", "mitmproxy.addons.dumper:Dumper.dns_error",
           "mitmproxy.utils.strutils:escape_control_characters", "mitmproxy.utils.strutils:bytes_to_escaped_str", "mitmproxy.contentviews:prettify_message",
           "mitmproxy.dns:DNSMessage.unpack", "mitmproxy.dns:ResourceRecord._data_json"]

# (label, character): one or more representatives per class
CHARS = [("nul", "\x00"), ("bel", "\x07"), ("bs", "\x08"), ("esc", "\x1b"), ("us", "\x1f"), ("del", "\x7f"),
         ("c1-pad", "\x80"), ("c1-nel", "\x85"), ("c1-csi", "\x9b"), ("c1-osc", "\x9d"), ("c1-apc", "\x9f"),
         ("tab", "\t"), ("lf", "\n"), ("cr", "\r"), ("ascii", "a"), ("latin1", "é"), ("bmp", "€")]
CHARS_ALL = ([(f"c0-{i:02x}", chr(i)) for i in range(32)] + [("del", "\x7f")] + [(f"c1-{i:02x}", chr(i)) for i in range(0x80, 0xA0)]
             + [("ascii", "a"), ("latin1", "é"), ("bmp", "€"), ("astral", "\U0001f600"), ("nbsp", "\xa0"), ("shy", "\xad")])
# how a character is put into a bytes field
ENCODINGS = ["utf-8", "latin-1"]

_CTX = []


def _ctx():
    if not _CTX:
        from mitmproxy.addons import dumper
        from mitmproxy.test import taddons

        _CTX.append(taddons.context(dumper.Dumper(io.StringIO())))
    return _CTX[0]


def _enc(X, c):
    e = X.choose("byte_encoding", ENCODINGS)
    try:
        return c.encode(e)
    except UnicodeEncodeError:
        X.assume(False)


def _dns_wire(qname: bytes, *, response=False, answers=()):
    """independent RFC 1035 packing; qname / record names are given as raw label bytes (b'x\\x1by' -> one label)"""

    def name(labels):
        return b"".join(bytes([len(l)]) + l for l in labels) + b"\0"

    head = struct.pack("!HHHHHH", 42, 0x8180 if response else 0x0100, 1, len(answers), 0, 0)
    q = name([qname, b"example"]) + struct.pack("!HH", 1, 1)
    out = head + q
    for labels, typ, rdata in answers:
        out += name(labels) + struct.pack("!HHIH", typ, 1, 60, len(rdata)) + rdata
    return out


def _http(X, field, c):
    from mitmproxy import flow as mflow
    from mitmproxy import http
    from mitmproxy.test import tflow

    f = tflow.tflow(resp=True)
    s = "x" + c + "y"
    hook = "response"
    if field == "http.method":
        f.request.data.method = b"G" + _enc(X, c) + b"T"
    elif field == "http.path":
        f.request.data.path = b"/x" + _enc(X, c) + b"y"
    elif field == "http.host":
        f.request.host = s
    elif field == "http.host_header":
        f.request.headers["host"] = s
    elif field == "http.authority":
        f.request.data.authority = b"x" + _enc(X, c) + b"y:80"
    elif field == "http.req_header_name":
        f.request.headers.fields = f.request.headers.fields + ((b"x" + _enc(X, c) + b"y", b"v"),)
    elif field == "http.req_header_value":
        f.request.headers.fields = f.request.headers.fields + ((b"n", b"x" + _enc(X, c) + b"y"),)
    elif field == "http.resp_header_name":
        f.response.headers.fields = f.response.headers.fields + ((b"x" + _enc(X, c) + b"y", b"v"),)
    elif field == "http.resp_header_value":
        f.response.headers.fields = f.response.headers.fields + ((b"n", b"x" + _enc(X, c) + b"y"),)
    elif field in ("http.req_body", "http.resp_body"):
        m = f.request if field == "http.req_body" else f.response
        ct = X.choose("content_type", [None, "text/plain", "text/plain; charset=utf-8", "application/json", "application/octet-stream"])
        if ct:
            m.headers["content-type"] = ct
        else:
            m.headers.pop("content-type", None)
        m.data.content = b"x" + _enc(X, c) + b"y"
    elif field == "http.req_trailer":
        f.request.trailers = http.Headers([(b"t" + _enc(X, c), b"x" + _enc(X, c) + b"y")])
    elif field == "http.resp_trailer":
        f.response.trailers = http.Headers([(b"t" + _enc(X, c), b"x" + _enc(X, c) + b"y")])
    elif field == "http.reason":
        f.response.data.reason = b"x" + _enc(X, c) + b"y"
    elif field == "http.req_version":
        f.request.data.http_version = b"HTTP/1." + _enc(X, c)
    elif field == "http.resp_version":
        f.response.data.http_version = b"HTTP/1." + _enc(X, c)
    elif field == "http.error":
        f.response = None
        f.error = mflow.Error(s)
        hook = "error"
    elif field == "http.connect_error":
        f.response = None
        f.error = mflow.Error(s)
        hook = "http_connect_error"
    else:
        raise AssertionError(field)
    return hook, f


def _ws(X, field, c):
    from wsproto.frame_protocol import Opcode

    from mitmproxy import websocket
    from mitmproxy.test import tflow

    s = "x" + c + "y"
    f = tflow.twebsocketflow()
    hook = "websocket_message"
    if field == "ws.text":
        f.websocket.messages.append(websocket.WebSocketMessage(Opcode.TEXT, X.boolean("from_client"), s.encode("utf-8"), 946681206))
    elif field == "ws.binary":
        f.websocket.messages.append(websocket.WebSocketMessage(Opcode.BINARY, X.boolean("from_client"), b"x" + _enc(X, c) + b"y", 946681206))
    elif field == "ws.path":
        f.request.data.path = b"/x" + _enc(X, c) + b"y"
    elif field == "ws.server_host":
        f.server_conn.address = (s, 80)
    elif field == "ws.close_reason":
        f.websocket.close_reason = s
        f.websocket.close_code = X.choose("close_code", [1000, 1001, 1006, 1011, 4000])
        hook = "websocket_end"
    else:
        raise AssertionError(field)
    return hook, f


def _stream(X, field, c):
    from mitmproxy import flow as mflow
    from mitmproxy import tcp, udp
    from mitmproxy.test import tflow

    proto, what = field.split(".")
    f = tflow.ttcpflow() if proto == "tcp" else tflow.tudpflow()
    s = "x" + c + "y"
    hook = f"{proto}_message"
    if what == "payload":
        M = tcp.TCPMessage if proto == "tcp" else udp.UDPMessage
        f.messages.append(M(X.boolean("from_client"), b"x" + _enc(X, c) + b"y", 946681206))
    elif what == "server_host":
        f.server_conn.address = (s, 443)
        if X.boolean("quic"):
            f.client_conn.tls_version = "QUICv1"
    elif what == "error":
        f.error = mflow.Error(s)
        hook = f"{proto}_error"
    else:
        raise AssertionError(field)
    return hook, f


def _dns(X, field, c):
    from mitmproxy import dns
    from mitmproxy import flow as mflow
    from mitmproxy.test import tflow

    hook = "dns_response"
    try:
        cb = ("x" + c + "y").encode("latin-1")
    except UnicodeEncodeError:
        X.assume(False)
    if field == "dns.qname":
        req = _dns_wire(cb)
        resp = _dns_wire(cb, response=True, answers=[([cb, b"example"], 1, b"\x01\x02\x03\x04")])
    else:
        typ = {"dns.cname": 5, "dns.ns": 2, "dns.ptr": 12, "dns.txt": 16}[field]
        if typ == 16:
            data = X.choose("txt_encoding", ["utf-8", "latin-1"])
            try:
                t = ("x" + c + "y").encode(data)
            except UnicodeEncodeError:
                X.assume(False)
            rdata = bytes([len(t)]) + t
        else:
            rdata = bytes([len(cb)]) + cb + b"\x03org\x00"
        req = _dns_wire(b"host")
        resp = _dns_wire(b"host", response=True, answers=[([b"host", b"example"], typ, rdata)])
    try:
        # the public decoding entry point: what the wire can actually produce
        reqm = dns.DNSMessage.unpack(req)
        respm = dns.DNSMessage.unpack(resp)
    except struct.error:
        X.reach("dns-rejected-on-the-wire")
        return None, None
    f = tflow.tdnsflow(req=reqm, resp=respm)
    if field == "dns.qname" and X.boolean("as_error"):
        f.response = None
        f.error = mflow.Error("boom")
        hook = "dns_error"
    return hook, f


def _dns_err(X, field, c):
    from mitmproxy import flow as mflow
    from mitmproxy.test import tflow

    f = tflow.tdnsflow(err=mflow.Error("x" + c + "y"))
    return "dns_error", f


FIELDS = {}
for _f in ("http.method", "http.path", "http.host", "http.host_header", "http.authority", "http.req_header_name", "http.req_header_value", "http.resp_header_name",
           "http.resp_header_value", "http.req_body", "http.resp_body", "http.req_trailer", "http.resp_trailer", "http.reason", "http.req_version", "http.resp_version",
           "http.error", "http.connect_error"):
    FIELDS[_f] = _http
for _f in ("ws.text", "ws.binary", "ws.path", "ws.server_host", "ws.close_reason"):
    FIELDS[_f] = _ws
for _f in ("tcp.payload", "tcp.server_host", "tcp.error", "udp.payload", "udp.server_host", "udp.error"):
    FIELDS[_f] = _stream
for _f in ("dns.qname", "dns.cname", "dns.ns", "dns.ptr", "dns.txt"):
    FIELDS[_f] = _dns
FIELDS["dns.error"] = _dns_err


def _cc(text):
    return [ch for ch in text if unicodedata.category(ch) == "Cc" and ch not in "\t\n\r"]


def h_dump(X, fields, chars=None):
    from mitmproxy.addons import dumper
    from mitmproxy.contrib import click as miniclick

    t = _ctx()
    field = X.choose("field", fields)
    label, c = X.choose("char", chars or CHARS)
    detail = X.choose("flow_detail", 5)
    styled = X.boolean("styled")
    showhost = X.boolean("showhost") if field in ("http.host_header", "http.host", "http.authority") else False
    hook, f = FIELDS[field](X, field, c)
    if f is None:
        return
    t.options.update(flow_detail=detail, showhost=showhost)
    out = io.StringIO()
    d = dumper.Dumper(out)
    d.out_has_vt_codes = styled
    sgr = set()
    real_style = miniclick.style

    def recording_style(text, **kw):
        r = real_style(text, **kw)
        reset = kw.get("reset", True)
        pre = real_style("", **dict(kw, reset=False))
        if pre:
            sgr.add(pre)
        if reset:
            sgr.add("\033[0m")
        return r

    miniclick.style = recording_style
    try:
        getattr(d, hook)(f)
    finally:
        miniclick.style = real_style
        t.options.update(flow_detail=1, showhost=False)
    text = out.getvalue()
    X.reach("dumped")
    if text:
        X.reach("output")
    if styled and sgr:
        X.reach("styled")
    if detail >= 3 and text:
        X.reach("detail3")
    plain = text
    for s in sorted(sgr, key=len, reverse=True):
        plain = plain.replace(s, "")
    bad = _cc(plain)
    if bad:
        only_c1 = all(0x80 <= ord(ch) <= 0x9F for ch in bad)
        key = f"C49/c1-controls/{field}" if only_c1 else f"C49/unescaped/{field}"
        X.fail(key, f"Dumper.{hook} with {field} = 'x'+{c!r}+'y' ({label}), flow_detail={detail}, styled={styled}: output contains control characters {bad!r}: {plain!r}"[:900],
               output=text[:400])
    if c in plain and unicodedata.category(c) != "Cc":
        X.reach("printable-shown")


def h_bytes_kernel(X):
    """bytes_to_escaped_str over every byte value x both options: nothing but printable ASCII (and kept spacing) comes out"""
    from mitmproxy.utils import strutils

    b = X.choose("hi", 16) * 16 + X.choose("lo", 16)
    keep = X.boolean("keep_spacing")
    esq = X.boolean("escape_single_quotes")
    out = strutils.bytes_to_escaped_str(b"x" + bytes([b]) + b"y", keep, esq)
    X.reach("escaped")
    bad = [ch for ch in out if unicodedata.category(ch) == "Cc" and not (keep and ch in "\t\n\r")]
    X.check(not bad, "C49/bytes_to_escaped_str/control", f"bytes_to_escaped_str(b'x'+{bytes([b])!r}+b'y', {keep}, {esq}) = {out!r}")
    X.check(all(ord(ch) < 0x80 for ch in out), "C49/bytes_to_escaped_str/non-ascii", f"bytes_to_escaped_str({bytes([b])!r}) = {out!r}")


KFILE = "props/chx/c49_kernel.py"


def obligations(tier):
    fields = list(FIELDS)
    reach = ["dumped", "output", "styled", "detail3", "printable-shown", "dns-rejected-on-the-wire"]
    return [
        Chx("escape-kernel-c0-del", KFILE, "check_escape_c0_del", twin="twin_escape_c0_del", encoded=ENCODED[12:13], timeout=60,
            bounds="escape_control_characters('x'+chr(c)+'y', keep) for every code point c outside U+0080-U+009F (surrogates excluded), keep_spacing symbolic"),
        Chx("escape-kernel-all-code-points", KFILE, "check_escape_all", twin="twin_escape_all", encoded=ENCODED[12:13], timeout=60,
            keyfn=lambda a, k: "C49/c1-controls/escape_control_characters",
            bounds="escape_control_characters('x'+chr(c)+'y', keep) for every one of the 1.1 M code points (surrogates excluded), keep_spacing symbolic"),
        Chx("escape-kernel-printable-unchanged", KFILE, "check_printable_unchanged", twin="twin_printable_unchanged", encoded=ENCODED[12:13], timeout=60,
            bounds="every non-control code point is left unchanged"),
        Symx("bytes-escape-kernel", h_bytes_kernel, bounds="bytes_to_escaped_str on every byte value x keep_spacing x escape_single_quotes", encoded=ENCODED[13:14],
             must_reach=["escaped"]),
        Symx("dumper-fields", lambda X: h_dump(X, fields, None if tier == "quick" else CHARS_ALL),
             bounds=f"{len(fields)} attacker-controlled fields {fields} x " + (f"{len(CHARS)} characters {[l for l, _ in CHARS]}" if tier == "quick" else
                    f"{len(CHARS_ALL)} characters (every C0, DEL, every C1 control + printable / non-ASCII representatives)") + " x flow_detail 0-4 x styling on/off "
                    "(x byte encoding utf-8/latin-1, content-type, direction, close code, showhost where the field has them)",
             encoded=ENCODED, must_reach=reach, stubs=["mitmproxy.contrib.click.style wrapped by a recording pass-through"], parallel_depth=1),
    ]
