"""CrossHair harnesses for C49/C50: the escaping primitives over ALL code points.

Control character = Unicode general category Cc = U+0000-U+001F (C0), U+007F (DEL), U+0080-U+009F (C1);
tab, newline and carriage return may be kept when `keep_spacing` is requested.
"""
from mitmproxy.utils import strutils


def _is_cc(o: int) -> bool:
    return o < 32 or 127 <= o <= 159


def _clean(text: str, keep: bool) -> bool:
    for ch in text:
        o = ord(ch)
        if _is_cc(o) and not (keep and (o == 9 or o == 10 or o == 13)):
            return False
    return True


def check_escape_c0_del(c: int, keep: bool) -> bool:
    """
    pre: 0 <= c <= 0x10FFFF
    pre: not (0xD800 <= c <= 0xDFFF)
    pre: not (0x80 <= c <= 0x9F)
    post: _
    """
    out = strutils.escape_control_characters("x" + chr(c) + "y", keep)
    return len(out) == 3 and out[0] == "x" and out[2] == "y" and _clean(out, keep)


def twin_escape_c0_del(c: int, keep: bool) -> bool:
    """
    pre: 0 <= c <= 0x10FFFF
    pre: not (0xD800 <= c <= 0xDFFF)
    pre: not (0x80 <= c <= 0x9F)
    post: _
    """
    check_escape_c0_del(c, keep)
    return False


def check_escape_all(c: int, keep: bool) -> bool:
    """
    pre: 0 <= c <= 0x10FFFF
    pre: not (0xD800 <= c <= 0xDFFF)
    post: _
    """
    out = strutils.escape_control_characters("x" + chr(c) + "y", keep)
    return len(out) == 3 and out[0] == "x" and out[2] == "y" and _clean(out, keep)


def twin_escape_all(c: int, keep: bool) -> bool:
    """
    pre: 0 <= c <= 0x10FFFF
    pre: not (0xD800 <= c <= 0xDFFF)
    post: _
    """
    check_escape_all(c, keep)
    return False


def check_printable_unchanged(c: int, keep: bool) -> bool:
    """
    pre: 0 <= c <= 0x10FFFF
    pre: not (0xD800 <= c <= 0xDFFF)
    pre: not (c < 32 or 127 <= c <= 159)
    post: _
    """
    return strutils.escape_control_characters(chr(c), keep) == chr(c)


def twin_printable_unchanged(c: int, keep: bool) -> bool:
    """
    pre: 0 <= c <= 0x10FFFF
    pre: not (0xD800 <= c <= 0xDFFF)
    pre: not (c < 32 or 127 <= c <= 159)
    post: _
    """
    check_printable_unchanged(c, keep)
    return False
