"""CrossHair harnesses for C32 (message text round-trips): symbolic code points flow through the real
Message.set_text / get_text (infer_content_encoding, parse/assemble_content_type, encoding.encode/decode,
set_content/get_content) with fixed headers.  Oracle: get_text() == text, where a leading U+FEFF of the
assigned text may be consumed as the encoding signature (see props/C32.py)."""
from mitmproxy import http


def _msg(content_type):
    h = http.Headers()
    if content_type:
        h["content-type"] = content_type
    return http.Response(b"HTTP/1.1", 200, b"OK", h, b"", None, 0, 0)


def _same(got, text) -> bool:
    return got == text or (text[:1] == chr(0xFEFF) and got == text[1:])


def _roundtrip(content_type: str, text: str) -> bool:
    m = _msg(content_type)
    m.set_text(text)
    return _same(m.get_text(), text)


def check_utf8(c: int) -> bool:
    """
    pre: 0 <= c <= 0x10FFFF
    pre: not (0xD800 <= c <= 0xDFFF)
    post: _
    """
    return _roundtrip("text/plain; charset=utf-8", chr(c) + "x")


def twin_utf8(c: int) -> bool:
    """
    pre: 0 <= c <= 0x10FFFF
    pre: not (0xD800 <= c <= 0xDFFF)
    post: _
    """
    _roundtrip("text/plain; charset=utf-8", chr(c) + "x")
    return False


def check_latin1(c: int) -> bool:
    """
    pre: 0 <= c <= 0xFF
    post: _
    """
    m = _msg("text/plain; charset=latin-1")
    text = "x" + chr(c)
    m.set_text(text)
    ct = m.headers["content-type"]
    # the declared charset is only changed when the text cannot be represented otherwise
    if c <= 0xFF and ct != "text/plain; charset=latin-1":
        return False
    if c > 0xFF and ct != "text/plain; charset=utf-8":
        return False
    return m.get_text() == text


def twin_latin1(c: int) -> bool:
    """
    pre: 0 <= c <= 0xFF
    post: _
    """
    check_latin1(c)
    return False


def check_no_content_type(c: int) -> bool:
    """
    pre: 0 <= c <= 0xFF
    post: _
    """
    m = _msg("")
    text = chr(c) + "x"
    m.set_text(text)
    # representable in the latin-1 default: no charset declaration is invented
    if "content-type" in m.headers:
        return False
    return m.get_text() == text


def twin_no_content_type(c: int) -> bool:
    """
    pre: 0 <= c <= 0xFF
    post: _
    """
    check_no_content_type(c)
    return False


def check_html(c: int) -> bool:
    """
    pre: 0 <= c <= 0x10FFFF
    pre: not (0xD800 <= c <= 0xDFFF)
    post: _
    """
    return _roundtrip("text/html", "<p>" + chr(c))


def twin_html(c: int) -> bool:
    """
    pre: 0 <= c <= 0x10FFFF
    pre: not (0xD800 <= c <= 0xDFFF)
    post: _
    """
    _roundtrip("text/html", "<p>" + chr(c))
    return False


def check_json_one(c: int) -> bool:
    """
    pre: 0 <= c <= 0x10FFFF
    pre: not (0xD800 <= c <= 0xDFFF)
    post: _
    """
    return _roundtrip("application/json", chr(c) + "}")


def twin_json_one(c: int) -> bool:
    """
    pre: 0 <= c <= 0x10FFFF
    pre: not (0xD800 <= c <= 0xDFFF)
    post: _
    """
    _roundtrip("application/json", chr(c) + "}")
    return False
