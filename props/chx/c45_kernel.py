"""CrossHair harnesses for C45 (command-line arguments reach commands unchanged).

The string `s` stays symbolic (code points are solver variables) through the real
`command_lexer.quote`, `command_lexer.unquote` and `types._StrType.parse`.
Docstrings are read raw by CrossHair: the backslash is written chr(92).
"""
from mitmproxy import command_lexer
from mitmproxy import types

_STR = types._StrType()
_BS = chr(92)
_DQ = chr(34)
_SQ = chr(39)


def _same(a: str, b: str) -> bool:
    """code-point-wise equality (CrossHair 0.0.110's LazyIntSymbolicStr.__eq__ answers False for a slice
    `('"'+s+'"')[1:-1] == s`; comparing lengths and ord() values avoids that engine artefact)"""
    if len(a) != len(b):
        return False
    for i in range(len(a)):
        if ord(a[i]) != ord(b[i]):
            return False
    return True


def _delivered(s: str) -> str:
    """what a `str` parameter receives when the console quotes `s` (command.py: unquote, then parsearg)"""
    return _STR.parse(None, str, command_lexer.unquote(command_lexer.quote(s)))


def check_roundtrip(s: str) -> bool:
    """
    pre: len(s) <= 3
    post: _
    """
    return _same(_delivered(s), s)


def twin_roundtrip(s: str) -> bool:
    """
    pre: len(s) <= 3
    post: _
    """
    _delivered(s)
    return False


def check_roundtrip_no_backslash(s: str) -> bool:
    """
    pre: len(s) <= 3
    pre: chr(92) not in s
    post: _
    """
    return _same(_delivered(s), s)


def twin_roundtrip_no_backslash(s: str) -> bool:
    """
    pre: len(s) <= 3
    pre: chr(92) not in s
    post: _
    """
    _delivered(s)
    return False


def check_quote_is_one_token(s: str) -> bool:
    """
    pre: len(s) <= 3
    post: _
    """
    # what quote() returns is either free of separators and quote characters (a bare word), or one
    # quoted string whose body does not contain its own delimiter: the lexer cannot split it
    q = command_lexer.quote(s)
    if len(q) >= 2 and q[0] == q[-1] and (q[0] == _DQ or q[0] == _SQ):
        return q[0] not in q[1:-1]
    if len(q) == 0:
        return False
    for ch in q:
        if ch == _DQ or ch == _SQ or ch == " " or ch == chr(9) or ch == chr(10) or ch == chr(13):
            return False
    return True


def twin_quote_is_one_token(s: str) -> bool:
    """
    pre: len(s) <= 3
    post: _
    """
    check_quote_is_one_token(s)
    return False


def check_unquote_quote(s: str) -> bool:
    """
    pre: len(s) <= 3
    pre: not (chr(34) in s and chr(39) in s)
    post: _
    """
    # without both quote characters quote() must not alter the text at all
    return _same(command_lexer.unquote(command_lexer.quote(s)), s)


def twin_unquote_quote(s: str) -> bool:
    """
    pre: len(s) <= 3
    pre: not (chr(34) in s and chr(39) in s)
    post: _
    """
    command_lexer.unquote(command_lexer.quote(s))
    return False
