"""CrossHair harnesses for C12 (error pages never reflect unescaped input).

Per-code-point kernels: the only function that stands between a reflected message and the page is
`html.escape` (AST obligation `template-interpolations` in props/C12.py shows that every interpolation of
the template goes through it), followed by `.encode("utf8", "replace")`.  CrossHair decides the kernels for
every code point at once (the code point stays symbolic inside str.replace / comparisons).
"""
import html

_FORBIDDEN = "<>\"'"
_ENTITIES = ("&amp;", "&lt;", "&gt;", "&quot;", "&#x27;")
_TABLE = {"&": "&amp;", "<": "&lt;", ">": "&gt;", '"': "&quot;", "'": "&#x27;"}


def _safe(fragment: str) -> bool:
    """no markup-significant character, and every ampersand starts one of the five entities"""
    i = 0
    while i < len(fragment):
        ch = fragment[i]
        if ch in _FORBIDDEN:
            return False
        if ch == "&":
            if not any(fragment.startswith(e, i) for e in _ENTITIES):
                return False
        i += 1
    return True


def _escape_ok(c: int) -> bool:
    ch = chr(c)
    e = html.escape(ch)
    if not _safe(e):
        return False
    if ch in _TABLE:
        return e == _TABLE[ch]
    return e == ch  # everything else is passed through unchanged (reflected verbatim, harmless)


def check_escape_codepoint(c: int) -> bool:
    """
    pre: 0 <= c <= 0x10FFFF
    post: _
    """
    return _escape_ok(c)


def twin_escape_codepoint(c: int) -> bool:
    """
    pre: 0 <= c <= 0x10FFFF
    post: _
    """
    _escape_ok(c)
    return False


def _embedded_ok(c: int) -> bool:
    """the escaped code point stays safe between arbitrary safe neighbours (no entity is completed or
    broken by its context): prefix ends in '&' is impossible for safe text unless it starts an entity"""
    e = html.escape("a" + chr(c) + ";")
    return _safe(e) and e.startswith("a") and e.endswith(";")


def check_embedded_codepoint(c: int) -> bool:
    """
    pre: 0 <= c <= 0x10FFFF
    post: _
    """
    return _embedded_ok(c)


def twin_embedded_codepoint(c: int) -> bool:
    """
    pre: 0 <= c <= 0x10FFFF
    post: _
    """
    _embedded_ok(c)
    return False


def _pair_ok(a: int, b: int) -> bool:
    """escape is a per-character substitution: escape(xy) == escape(x) + escape(y)"""
    x, y = chr(a), chr(b)
    return html.escape(x + y) == html.escape(x) + html.escape(y)


def check_pair_homomorphic(a: int, b: int) -> bool:
    """
    pre: 0 <= a <= 0x10FFFF
    pre: 0 <= b <= 0x10FFFF
    post: _
    """
    return _pair_ok(a, b)


def twin_pair_homomorphic(a: int, b: int) -> bool:
    """
    pre: 0 <= a <= 0x10FFFF
    pre: 0 <= b <= 0x10FFFF
    post: _
    """
    _pair_ok(a, b)
    return False


def _encode_ok(c: int) -> bool:
    """the final .encode("utf8", "replace") cannot introduce markup: a code point that is not itself one of the
    five significant characters never encodes to bytes containing one (multi-byte sequences are >= 0x80,
    unencodable surrogates become '?')"""
    ch = chr(c)
    if ch in _TABLE:
        return True
    raw = ch.encode("utf8", "replace")
    for b in raw:
        if b in (0x3C, 0x3E, 0x26, 0x22, 0x27):
            return False
    return True


def check_encode_codepoint(c: int) -> bool:
    """
    pre: 0 <= c <= 0x10FFFF
    post: _
    """
    return _encode_ok(c)


def twin_encode_codepoint(c: int) -> bool:
    """
    pre: 0 <= c <= 0x10FFFF
    post: _
    """
    _encode_ok(c)
    return False
