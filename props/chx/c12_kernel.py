"""CrossHair harnesses for C12 (error pages never reflect unescaped input)."""
import html

from mitmproxy.proxy.layers.http._base import format_error

_FORBIDDEN = "<>\"'"
_ENTITIES = ("&amp;", "&lt;", "&gt;", "&quot;", "&#x27;")


def _safe(fragment: str) -> bool:
    i = 0
    while i < len(fragment):
        ch = fragment[i]
        if ch in _FORBIDDEN:
            return False
        if ch == "&":
            if not any(fragment.startswith(e, i) for e in _ENTITIES):
                return False
        i += 1
    return True


def _body(c: int) -> bool:
    page = format_error(502, "x" + chr(c) + "y").decode("utf8")
    start = page.index("<p>") + 3
    end = page.rindex("</p>")
    frag = page[start:end]
    return _safe(frag) and frag.startswith("x") and frag.endswith("y")


def check_codepoint(c: int) -> bool:
    """
    pre: 0 <= c <= 0x10FFFF
    pre: not (0xD800 <= c <= 0xDFFF)
    post: _
    """
    return _body(c)


def twin_codepoint(c: int) -> bool:
    """
    pre: 0 <= c <= 0x10FFFF
    pre: not (0xD800 <= c <= 0xDFFF)
    post: _
    """
    _body(c)
    return False


def check_message(msg: str) -> bool:
    """
    pre: len(msg) <= 3
    post: _
    """
    page = format_error(400, msg).decode("utf8", "replace")
    start = page.index("<p>") + 3
    end = page.rindex("</p>")
    return _safe(page[start:end])


def twin_message(msg: str) -> bool:
    """
    pre: len(msg) <= 3
    post: _
    """
    check_message(msg)
    return False
