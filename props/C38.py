"""C38 — flows from older mitmproxy versions load correctly.

  shipped-dumps       every historical dump in test/mitmproxy/data (solver-enumerated file x flow index): the real
                      FlowReader migrates and builds current flows; get_state() carries the current version; saving
                      and loading again (twice) reproduces the state; the pre-0.11 dump is rejected with a
                      FlowReadException naming the version
  converter-table     (SMT, lifted from the current source of io/compat.py and version.py): for ALL ints v with
                      oldest <= v < FLOW_FORMAT_VERSION there is a converter; every converter's target version is
                      strictly greater than its key, never overshoots the current version and is itself a key or the
                      current version (no dead ends); the legacy tuple keys form a chain into the int keys
  version-dispatch    the real compat.migrate_flow on a state whose version is a SYMBOLIC int (all 2^32 values) or a
                      symbolic legacy tuple: == current -> the same object comes back untouched; a supported old
                      version -> the converter chain is walked in order, once each, up to the current version;
                      > current -> ValueError asking to update; anything else -> ValueError.  (Converter bodies are
                      replaced by their version effect lifted from the source; the real bodies run in synthetic-*.)
  synthetic-old-states  a current state of a real test flow is pushed BACKWARDS to a solver-chosen old version k by
                      hand-written inverses of convert_k_(k+1) ... convert_20_21 with solver-chosen optional shapes,
                      written to a file and read by the real FlowReader: a valid current flow comes back, the fields
                      the old format carried are preserved, save/load is stable
"""
import ast
import copy
import io as _io
import os

import z3

from vf import smt, symx
from vf.ob import Symx, Smt, Concrete
from vf.refs import flowio as F

LEVEL = "model_checking"
ASSUMPTIONS = [
    "synthetic old states are produced by hand-written inverse functions (props/C38.py INV) written from each converter's diff; their "
    "key sets are validated against the shipped version-10 and version-11 dumps (step 'inverse-validation')",
    "version-dispatch replaces each converter body by `data['version'] = <target lifted from the source>`; the dict lookup "
    "`flow_version in converters` on a symbolic key is answered by comparing with every key (SymKeyDict) instead of hashing",
    "shipped dumps are a fixed corpus (8 files, 14 flows)",
]
OUTSIDE = [
    "synthetic states for formats older than version 4 (tuple versions 0.11 .. 3.0: Python-2 era byte keys, nested address dicts) — covered only by the "
    "shipped dumps 0.11/0.18/0.19", "old-format WebSocket flows (separate 'websocket' flow type before version 12) beyond dumpfile-7-websocket",
    "old states whose optional fields take shapes not in the inverse menus", "DNS/UDP flows below the version that introduced them",
]
ENCODED = ["mitmproxy.io.compat:migrate_flow"] + [f"mitmproxy.io.compat:convert_{a}_{a + 1}" for a in range(4, 21)] + [
    "mitmproxy.io.compat:convert_unicode", "mitmproxy.io.io:FlowReader.stream", "mitmproxy.flow:Flow.from_state", "mitmproxy.flow:Flow.set_state"]

DATA = os.path.join("/repo", "test/mitmproxy/data")
DUMPS = [("dumpfile-011.mitm", 1), ("dumpfile-018.mitm", 1), ("dumpfile-019.mitm", 1), ("dumpfile-7-websocket.mitm", 6), ("dumpfile-7.mitm", 2),
         ("dumpfile-10.mitm", 1), ("dumpfile-19.mitm", 1)]
COMPAT = "mitmproxy/io/compat.py"


# ------------------------------------------------------------------------------------------------
# (i) shipped dumps


def h_dumps(X):
    from mitmproxy import version
    from mitmproxy.io import tnetstring

    name, count = X.choose("file", DUMPS + [("dumpfile-010.mitm", 0)])
    with open(os.path.join(DATA, name), "rb") as f:
        raw = f.read()
    try:
        flows, outcome = F.read_stream(raw)
    except Exception as e:  # noqa
        X.fail(f"C38/dumps/escape/{type(e).__name__}", f"{name}: reader raised {type(e).__name__}: {e}")
    if count == 0:
        X.check(outcome != "clean" and not flows and "version" in outcome[1], "C38/dumps/unsupported-version-accepted",
                f"{name} (format 0.10) was not rejected with an explanatory error: {outcome}, {len(flows)} flows")
        X.reach("rejected-too-old")
        return
    X.check(outcome == "clean" and len(flows) == count, "C38/dumps/load", f"{name}: {outcome}, {len(flows)} flows (expected {count})")
    i = X.choose("flow", count)
    fl = flows[i]
    st = fl.get_state()
    X.check(st["version"] == version.FLOW_FORMAT_VERSION, "C38/dumps/version", f"{name}[{i}] has version {st['version']}")
    # a valid current flow: the usual accessors work
    _touch(X, fl, f"{name}[{i}]", "C38/dumps")
    data, _ = F.write_flows([fl])
    again, out2 = F.read_stream(data)
    X.check(out2 == "clean" and len(again) == 1, "C38/dumps/resave", f"{name}[{i}]: re-saved flow does not load: {out2}")
    st2 = again[0].get_state()
    X.check(F.typed_eq(st, st2), "C38/dumps/resave-state", f"{name}[{i}]: {F.first_diff(st, st2)}")
    # (byte equality of successive saves is NOT demanded: the wire format reverses dict key order on every cycle)
    data2, _ = F.write_flows(again)
    third, out3 = F.read_stream(data2)
    X.check(out3 == "clean" and len(third) == 1 and F.typed_eq(third[0].get_state(), st), "C38/dumps/resave-unstable", f"{name}[{i}]: state drifts over save/load cycles")
    # current-format states pass through migration unchanged
    cur = tnetstring.loads(data)
    snap = copy.deepcopy(cur)
    from mitmproxy.io import compat

    out = compat.migrate_flow(cur)
    X.check(out is cur and F.typed_eq(out, snap), "C38/dumps/current-not-identity", f"{name}[{i}]: migrate_flow changed a current-format state")
    X.reach("loaded")


def _touch(X, fl, what, prefix):
    from mitmproxy import http, tcp

    # type invariants of the current classes that the converters must establish
    if isinstance(fl, http.HTTPFlow) and fl.websocket:
        for m in fl.websocket.messages:
            X.check(isinstance(m.content, bytes), f"{prefix}/invalid-flow/websocket-message-content-not-bytes",
                    f"{what}: WebSocketMessage.content is {type(m.content).__name__} {m.content!r:.40} (current flows store bytes; .text/.__repr__/~b filters fail)")
    if isinstance(fl, http.HTTPFlow):
        X.check(isinstance(fl.request.data.host, str) and isinstance(fl.request.data.path, bytes) and isinstance(fl.request.data.content, (bytes, type(None))),
                f"{prefix}/invalid-flow/request-field-types", f"{what}: host {type(fl.request.data.host).__name__}, path {type(fl.request.data.path).__name__}")
    try:
        repr(fl)
        fl.copy()
        if isinstance(fl, http.HTTPFlow):
            fl.request.url, fl.request.pretty_host, fl.request.headers.fields, fl.request.get_text(strict=False)
            if fl.response:
                fl.response.status_code, fl.response.reason, fl.response.get_content(strict=False)
            if fl.websocket:
                [m.text if m.is_text else m.content for m in fl.websocket.messages]
        elif isinstance(fl, tcp.TCPFlow):
            [(m.from_client, m.content) for m in fl.messages]
        fl.client_conn.peername, fl.server_conn.address, fl.timestamp_start
    except Exception as e:  # noqa
        X.fail(f"{prefix}/invalid-flow/{type(e).__name__}", f"{what}: migrated flow is not a valid current flow: {type(e).__name__}: {e}")


# ------------------------------------------------------------------------------------------------
# (ii-a) converter table lifted from source


def lift_table():
    """-> (current version, {key: (function name, target)}) from the *source text*; keys/targets are ints or int tuples"""
    cur = ast.literal_eval(smt.find_assign("mitmproxy/version.py", "FLOW_FORMAT_VERSION"))
    node = smt.find_assign(COMPAT, "converters")
    if not isinstance(node, ast.Dict):
        raise smt.AnchorNotFound("converters is not a dict literal")
    table = {}
    for k, v in zip(node.keys, node.values):
        key = ast.literal_eval(k)
        if not isinstance(v, ast.Name):
            raise smt.AnchorNotFound(f"converter for {key} is not a plain function name")
        fn = smt.find_function(COMPAT, v.id)
        targets = []
        for n in ast.walk(fn):
            if isinstance(n, ast.Assign) and len(n.targets) == 1 and isinstance(n.targets[0], ast.Subscript):
                t = n.targets[0]
                if isinstance(t.value, ast.Name) and t.value.id == "data" and isinstance(t.slice, ast.Constant) and t.slice.value in ("version", b"version"):
                    targets.append(ast.literal_eval(n.value))
        if len(targets) != 1:
            raise smt.AnchorNotFound(f"{v.id}: expected exactly one assignment to data['version'], found {targets}")
        table[key] = (v.id, targets[0])
    return cur, table


def _rank(v):
    """legacy tuples (a, b[, c]) sort below every int version; encoded as a*100+b - 100000"""
    if isinstance(v, tuple):
        return v[0] * 100 + v[1] - 100000
    return v


def build_table_queries():
    from mitmproxy.io import compat
    from mitmproxy import version

    cur, table = lift_table()
    int_keys = sorted(k for k in table if isinstance(k, int))
    tup_keys = sorted(k for k in table if isinstance(k, tuple))
    oldest = int_keys[0]
    qs = []
    v = z3.Int("v")

    def rp_gap(w):
        x = w["v"]
        ok = oldest <= x < version.FLOW_FORMAT_VERSION and x not in compat.converters
        return ok, f"no converter for flow format version {x} (supported range {oldest}..{version.FLOW_FORMAT_VERSION - 1})"

    qs.append(smt.Query("every int in [oldest, current) has a converter", [v >= oldest, v < cur] + [v != k for k in int_keys],
                        key="C38/table/gap", witness_vars=[v], replay=rp_gap))
    # per-entry facts as one query each over an index variable
    i = z3.Int("i")
    keys = int_keys + tup_keys
    rk = z3.Function("rank_key", z3.IntSort(), z3.IntSort())
    rt = z3.Function("rank_target", z3.IntSort(), z3.IntSort())
    facts = []
    for n, k in enumerate(keys):
        facts += [rk(n) == _rank(k), rt(n) == _rank(table[k][1])]
    dom = [i >= 0, i < len(keys)]

    def rp_entry(what):
        def rp(w):
            k = keys[w["i"]]
            return True, f"converter {table[k][0]} (key {k}) sets version {table[k][1]}: {what}"
        return rp

    qs.append(smt.Query("every converter strictly increases the version", facts + dom + [rt(i) <= rk(i)], key="C38/table/not-increasing",
                        witness_vars=[i], replay=rp_entry("not greater than its key")))
    qs.append(smt.Query("no converter overshoots the current version", facts + dom + [rt(i) > cur], key="C38/table/overshoot",
                        witness_vars=[i], replay=rp_entry(f"beyond the current version {cur}")))
    j = z3.Int("j")
    qs.append(smt.Query("every target is again a key or the current version (no dead end)",
                        facts + dom + [rt(i) != cur, z3.ForAll([j], z3.Implies(z3.And(j >= 0, j < len(keys)), rk(j) != rt(i)))],
                        key="C38/table/dead-end", witness_vars=[i], replay=rp_entry("which has no converter and is not current")))
    # int versions move one step at a time (the file format version is incremented by one per change)
    qs.append(smt.Query("int converters step by exactly one", facts + dom + [i < len(int_keys), rt(i) != rk(i) + 1], key="C38/table/skip",
                        witness_vars=[i], replay=rp_entry("not key + 1")))
    # the lifted table is the table the running module uses
    live = {k: f.__name__ for k, f in compat.converters.items()}
    same = z3.BoolVal(live == {k: t[0] for k, t in table.items()} and cur == version.FLOW_FORMAT_VERSION)
    qs.append(smt.Query("lifted table == compat.converters of the imported module", [z3.Not(same)], key="C38/table/lift-mismatch",
                        replay=lambda w: (True, "source-lifted converter table differs from the imported module")))
    return qs


# ------------------------------------------------------------------------------------------------
# (ii-b) dispatch for all ints through the real migrate_flow


def h_dispatch(X):
    from mitmproxy import version
    from mitmproxy.io import compat

    cur, table = lift_table()
    calls = []

    def summary(key):
        name, target = table[key]

        def conv(data):
            calls.append(key)
            data["version"] = target if isinstance(target, int) else list(target)
            return data
        conv.__name__ = name
        return conv

    int_keys = sorted(k for k in table if isinstance(k, int))
    oldest = int_keys[0]
    form = X.choose("form", ["int", "legacy-tuple"])
    payload = {"marker": [1, b"x"]}
    if form == "int":
        v = X.int("version", -(2 ** 31), 2 ** 31)
        data = {"version": v, "payload": payload}
    else:
        a, b, c = X.int("major", 0, 9), X.int("minor", 0, 30), X.choose("patch", [None, 0, 7])
        data = {"version": [a, b] + ([] if c is None else [c]), "payload": payload}
        v = None
    saved = compat.converters
    compat.converters = F.SymKeyDict({k: summary(k) for k in table})
    symx.install_isinstance(compat)
    X.opaque_str(True)
    try:
        try:
            out = compat.migrate_flow(data)
            err = None
        except ValueError as e:
            out, err = None, str(e)
    finally:
        compat.converters = saved
        symx.uninstall_isinstance(compat)
    if form == "int":
        if bool(v == version.FLOW_FORMAT_VERSION):
            X.check(err is None and out is data and not calls and set(out) == {"version", "payload"} and out["payload"] is payload and payload == {"marker": [1, b"x"]},
                    "C38/dispatch/current-not-identity", f"current-format state not returned unchanged: err={err} calls={calls}")
            X.reach("identity")
        elif bool(v > version.FLOW_FORMAT_VERSION):
            X.check(err is not None and "update" in err, "C38/dispatch/newer-not-rejected", f"newer version: err={err!r} out={out!r:.80}")
            X.reach("newer-rejected")
        elif bool(v >= oldest):
            k = symx.concretize(v)
            X.check(err is None and calls == list(range(k, cur)) and out is data and out["version"] == cur, "C38/dispatch/chain",
                    f"version {k}: converters called {calls}, result version {None if out is None else out['version']}, err={err}")
            X.reach("chain")
        else:
            X.check(err is not None and "update" not in err and "cannot read" in err, "C38/dispatch/too-old-not-rejected", f"old version: err={err!r} out={out!r:.80}")
            X.reach("too-old-rejected")
    else:
        tk = sorted(k for k in table if isinstance(k, tuple))
        hit = None
        for k in tk:
            if bool(a == k[0]) and bool(b == k[1]):
                hit = k
        if hit is None:
            X.check(err is not None and "cannot read" in err and "update" not in err, "C38/dispatch/unknown-tuple", f"tuple version: err={err!r}")
            X.reach("tuple-rejected")
        else:
            exp = tk[tk.index(hit):] + int_keys
            X.check(err is None and calls == exp and out["version"] == cur, "C38/dispatch/legacy-chain", f"legacy {hit}: called {calls}, expected {exp}, err={err}")
            X.reach("legacy-chain")


# ------------------------------------------------------------------------------------------------
# (iii) synthetic old states: inverses of the converters (state at version k+1 -> state at version k)


class Opts:
    """optional shapes of old states: at most `limit` of them deviate from the default shape on one path; which ones
    is decided by the solver the first time an inverse asks (so options that do not apply to the chosen version range
    cost no paths)"""

    def __init__(self, X, limit):
        self.X, self.limit, self.active = X, limit, []

    def on(self, name):
        if len(self.active) >= self.limit:
            return False
        if self.X.boolean("opt_" + name):
            self.active.append(name)
            return True
        return False

    def pick(self, name, menu):
        menu = list(menu)
        if len(self.active) >= self.limit:
            return menu[0]
        i = self.X.choose("opt_" + name, len(menu))
        if i:
            self.active.append(name)
        return menu[i]


def _conns(d):
    out = [d["client_conn"], d["server_conn"]]
    return out


def inv_20(O, d):  # convert_20_21: tls_version "QUIC" -> "QUICv1"
    d["version"] = 20
    for c in _conns(d):
        if c["tls_version"] == "QUICv1":
            c["tls_version"] = "QUIC"


def inv_19(O, d):  # convert_19_20: pops conn["state"] (if present)
    d["version"] = 19
    if O.on("v19_has_state"):
        d["client_conn"]["state"] = 0
        d["server_conn"]["state"] = 0


def inv_18(O, d):  # convert_18_19: connection attribute renames
    d["version"] = 18
    cc, sc = d["client_conn"], d["server_conn"]
    as_bytes = O.on("v18_bytes_hosts")

    def host(addr):
        if addr and as_bytes:
            return [addr[0].encode()] + list(addr[1:])
        return addr

    cc["address"] = host(cc.pop("peername"))
    cc["sockname"] = host(cc["sockname"])
    cc["tls_extensions"] = O.pick("v18_tls_extensions", [None, []])
    sc["ip_address"] = host(sc.pop("peername"))
    sc["source_address"] = host(sc.pop("sockname"))
    sc["address"] = host(sc["address"])
    sc["via2"] = sc.pop("via")
    for c in (cc, sc):
        c["tls_established"] = c["tls"]
        c["cipher_name"] = c.pop("cipher")
        if c["transport_protocol"] == "tcp" and O.on("v18_no_transport_protocol"):
            c.pop("transport_protocol")
    sc["via"] = None
    if sc["sni"] is not None and sc["address"] and sc["sni"] == (sc["address"][0] if not as_bytes else sc["address"][0].decode()) and O.on("v18_sni_true"):
        sc["sni"] = True


def inv_17(O, d):  # convert_17_18: client_conn["proxy_mode"] = "regular"
    d["version"] = 17
    d["client_conn"].pop("proxy_mode")


def inv_16(O, d):  # convert_16_17: pops "mode"
    d["version"] = 16
    m = O.pick("v16_mode", [None, "regular", "transparent", "reverse:https://example.com"])
    if m is not None:
        d["mode"] = m


def inv_15(O, d):  # convert_15_16: timestamp_created = request.timestamp_start / client_conn.timestamp_start
    d["version"] = 15
    d.pop("timestamp_created")


def inv_14(O, d):  # convert_14_15: websocket messages get an "injected" flag appended
    d["version"] = 14
    if d.get("websocket"):
        d["websocket"]["messages"] = [list(m)[:-1] for m in d["websocket"]["messages"]]


def inv_13(O, d):  # convert_13_14: comment = ""; response timestamp bugfix
    d["version"] = 13
    d.pop("comment")
    if d.get("response") and O.on("v13_response_without_timestamps"):
        d["response"]["timestamp_start"] = None
        d["response"]["timestamp_end"] = None


def inv_12(O, d):  # convert_12_13: marked bool -> str
    d["version"] = 12
    d["marked"] = bool(d["marked"])


def inv_11(O, d):  # convert_11_12: websocket key added (None for everything that is not an old websocket flow)
    d["version"] = 11
    d.pop("websocket", None)


def inv_10(O, d):  # convert_10_11: sni to str, alpn rename, None -> []
    d["version"] = 10
    for c in _conns(d):
        if c["sni"] is True:
            O.X.assume(False)  # sni=True only exists from format version 11 on
        if c["sni"] is not None and c["sni"] is not True and O.on("v10_sni_bytes"):
            c["sni"] = c["sni"].encode()
        c["alpn_proto_negotiated"] = c.pop("alpn")
        if not c["alpn_offers"] and O.on("v10_none_lists"):
            c["alpn_offers"] = None
        if not c["cipher_list"] and O.on("v10_none_lists2"):
            c["cipher_list"] = None


def inv_9(O, d):  # convert_9_10: new connection attributes
    d["version"] = 9
    cc, sc = d["client_conn"], d["server_conn"]
    for c in (cc, sc):
        for k in ("state", "error", "tls", "alpn_offers", "cipher_list"):
            c.pop(k, None)
    cc.pop("sockname")
    cl = cc.pop("certificate_list")
    cc["clientcert"] = cl[0] if cl else None
    cl = sc.pop("certificate_list")
    sc["cert"] = cl[0] if cl else None
    sc.pop("cipher_name")
    sc.pop("via2")


def inv_8(O, d):  # convert_8_9: is_replay moved to the flow, authority added, first_line_format dropped
    d["version"] = 8
    r = d.pop("is_replay")
    if "request" in d:
        d["request"]["first_line_format"] = O.pick("v8_form", ["relative", "absolute", "authority"])
        d["request"].pop("authority")
        if O.on("v8_has_is_replay"):
            d["request"]["is_replay"] = r == "request"
            if d.get("response"):
                d["response"]["is_replay"] = r == "response"


def inv_7(O, d):  # convert_7_8: trailers = None
    d["version"] = 7
    for m in ("request", "response"):
        if d.get(m):
            d[m].pop("trailers")


def inv_6(O, d):  # convert_6_7: client tls_extensions = None
    d["version"] = 6
    d["client_conn"].pop("tls_extensions")


def inv_5(O, d):  # convert_5_6: ssl_* -> tls_*
    d["version"] = 5
    for c in _conns(d):
        c["ssl_established"] = c.pop("tls_established")
        c["timestamp_ssl_setup"] = c.pop("timestamp_tls_setup")


def inv_4(O, d):  # convert_4_5: connection ids
    d["version"] = 4
    for c in _conns(d):
        c.pop("id")


INV = {20: inv_20, 19: inv_19, 18: inv_18, 17: inv_17, 16: inv_16, 15: inv_15, 14: inv_14, 13: inv_13, 12: inv_12, 11: inv_11, 10: inv_10, 9: inv_9,
       8: inv_8, 7: inv_7, 6: inv_6, 5: inv_5, 4: inv_4}
# oldest format version that could hold a flow of this kind (HTTP and TCP flows predate version 4)
MIN_VERSION = {"http-req": 4, "http-resp": 4, "http-err": 4, "tcp": 4, "tcp-err": 4, "ws": 12, "dns-req": 17, "dns-resp": 17, "dns-err": 17, "udp": 18}


def old_state(X, kind, k, variant=True, limit=1):
    """current state of a test flow of `kind`, with solver-chosen content variants, pushed back to version k"""
    f = F.base_flow(kind)
    if variant:
        v = X.choose("variant", ["plain", "marked", "replay", "quic", "no-body", "tls", "tls-custom-sni"] + (["udp-transport"] if kind.startswith("dns") or kind == "udp" else []))
        if v == "udp-transport":
            f.client_conn.transport_protocol = f.server_conn.transport_protocol = "udp"
            X.reach("udp-transport")
        elif v == "marked":
            f.marked = ":default:"
        elif v == "replay":
            f.is_replay = X.choose("replay_dir", ["request", "response"])
        elif v == "quic":
            f.client_conn.tls_version = f.server_conn.tls_version = "QUICv1"
        elif v == "no-body" and hasattr(f, "request") and kind.startswith("http"):
            f.request.content = None
        elif v == "tls-custom-sni":
            # the server name indication differs from the address host (transparent / reverse mode to an IP, custom SNI)
            f.client_conn.tls = f.server_conn.tls = True
            f.server_conn.sni = "sni.example.net"
            X.reach("custom-sni")
        elif v == "tls":
            f.client_conn.tls = f.server_conn.tls = True
            f.server_conn.sni = "address"
            f.client_conn.alpn_offers = [b"http/1.1"]
            f.client_conn.cipher_list = ["cipher"]
            f.server_conn.alpn = b"h2"
            f.server_conn.alpn_offers = [b"h2"]
    cur = F.norm(f.get_state())
    d = copy.deepcopy(cur)
    d.pop("backup")
    O = Opts(X, limit)
    for step in range(20, k - 1, -1):
        INV[step](O, d)
    return f, cur, d, O.active


def _project(st, k):
    """fields that format version k carried and that the converters promise to keep"""
    p = {"type": st["type"], "id": st["id"], "intercepted": st["intercepted"], "error": st["error"], "marked": bool(st["marked"]), "metadata": st["metadata"]}
    for m in ("request", "response"):
        if st.get(m):
            keep = ("method", "scheme", "host", "port", "path", "http_version", "headers", "content", "status_code", "reason", "timestamp_start", "timestamp_end")
            if st["type"] == "dns":
                p[m] = st[m]
            else:
                p[m] = {a: st[m][a] for a in keep if a in st[m]}
        else:
            p[m] = st.get(m)
    if "messages" in st:
        p["messages"] = st["messages"]
    if st.get("websocket"):
        p["websocket"] = {a: st["websocket"][a] for a in ("closed_by_client", "close_code", "close_reason", "timestamp_end")}
        p["ws_messages"] = [list(m)[:5] for m in st["websocket"]["messages"]]
    cc, sc = st["client_conn"], st["server_conn"]
    p["client"] = {a: cc[a] for a in ("peername", "timestamp_start", "timestamp_end", "timestamp_tls_setup", "sni", "tls_version", "mitmcert")}
    p["server"] = {a: sc[a] for a in ("address", "peername", "sockname", "timestamp_start", "timestamp_tcp_setup", "timestamp_tls_setup", "timestamp_end", "sni", "tls_version")}
    if k >= 5:
        p["client"]["id"], p["server"]["id"] = cc["id"], sc["id"]
    if k >= 9:
        p["is_replay"] = st["is_replay"]
    if k >= 10:
        for a in ("tls", "alpn", "alpn_offers", "cipher_list", "certificate_list", "error"):
            p["client"][a], p["server"][a] = cc[a], sc[a]
        p["client"]["sockname"] = cc["sockname"]
    if k >= 17:
        # DNS (format 17) and raw UDP (format 18) flows recorded their transport: a UDP exchange stays a UDP exchange
        p["client"]["transport_protocol"], p["server"]["transport_protocol"] = cc["transport_protocol"], sc["transport_protocol"]
    if k >= 14:
        p["comment"] = st["comment"]
    if k >= 13:
        p["marked"] = st["marked"]
    if k >= 16:
        p["timestamp_created"] = st["timestamp_created"]
    return p


def h_synthetic(X, kinds, limit=1):
    from mitmproxy import version
    from mitmproxy.io import tnetstring

    kind = X.choose("kind", kinds)
    k = X.choose("old_version", list(range(MIN_VERSION[kind], version.FLOW_FORMAT_VERSION)))
    f, cur, old, active = old_state(X, kind, k, limit=limit)
    X.note("old_version", k)
    X.note("options", active)
    data = tnetstring.dumps(old)
    what = f"{kind} flow pushed back to format version {k}"
    try:
        flows, outcome = F.read_stream(data)
    except Exception as e:  # noqa
        import traceback

        tb = traceback.extract_tb(e.__traceback__)[-1]
        X.fail(f"C38/synthetic/{kind.split('-')[0]}/escape/{type(e).__name__}", f"{what}: reader raised {type(e).__name__}: {str(e)[:100]} at {tb.filename.split('/mitmproxy/')[-1]}:{tb.name}")
    X.check(outcome == "clean" and len(flows) == 1, f"C38/synthetic/{kind.split('-')[0]}/not-loaded", f"{what}: {outcome}, {len(flows)} flows")
    g = flows[0]
    st = g.get_state()
    X.check(st["version"] == version.FLOW_FORMAT_VERSION and type(g) is type(f), "C38/synthetic/version", f"{what}: loaded as {type(g).__name__} version {st['version']}")
    _touch(X, g, what, "C38/synthetic")
    got, exp = _project(F.norm(st), k), _project(cur, k)
    if k <= 8:
        # before version 9 the replay marker lived in request/response ("is_replay": bool); convert_8_9 lifts it to the flow
        carried = "v8_has_is_replay" in active and (cur["is_replay"] == "request" or (cur["is_replay"] == "response" and cur.get("response")))
        exp["is_replay"] = cur["is_replay"] if carried else None
        got["is_replay"] = st["is_replay"]
    if "v13_response_without_timestamps" in active:
        # convert_13_14 repairs missing response timestamps from the request's end time
        exp["response"]["timestamp_start"] = cur["request"]["timestamp_end"]
        exp["response"]["timestamp_end"] = cur["request"]["timestamp_end"] + 1
    if k <= 12:
        exp["marked"] = bool(cur["marked"])
        got["marked"] = bool(st["marked"])
    X.check(F.typed_eq(got, exp), "C38/synthetic/field-lost", f"{what}: {F.first_diff(exp, got, 'flow')}")
    if k >= 19:
        # steps 19 and 20 are lossless: the whole state comes back
        X.check(F.typed_eq(F.norm(st), cur), "C38/synthetic/lossless-step", f"{what}: {F.first_diff(cur, F.norm(st))}")
    data2, _ = F.write_flows([g])
    again, out2 = F.read_stream(data2)
    X.check(out2 == "clean" and len(again) == 1 and F.typed_eq(again[0].get_state(), st), "C38/synthetic/resave", f"{what}: save/load of the migrated flow is not stable: {out2}")
    X.reach("migrated")
    X.reach("from-%d" % k)
    X.reach("kind-" + kind.split("-")[0])


def validate_inverses():
    """key sets of synthesized version-10 / version-11 HTTP states == key sets of the shipped dumps of those versions"""
    from mitmproxy.io import tnetstring

    class _X:  # fixed choices: the most common shape
        def choose(self, name, n):
            if name == "opt_v16_mode":
                return 1
            return 0 if isinstance(n, int) else list(n)[0]

        def boolean(self, name):
            return name in ("opt_v19_has_state", "opt_v18_no_transport_protocol")

    n = 0
    for fn, ver in (("dumpfile-10.mitm", 10), ("dumpfile-7.mitm", 11)):
        with open(os.path.join(DATA, fn), "rb") as f:
            real = tnetstring.load(f)
        assert real["version"] == ver, (fn, real["version"])
        _, _, syn, _ = old_state(_X(), "http-resp", ver, variant=False, limit=99)
        for part in (None, "client_conn", "server_conn", "request"):
            a = set(real if part is None else real[part])
            b = set(syn if part is None else syn[part])
            assert a == b, f"{fn} {part or 'top'}: shipped-only keys {sorted(a - b)}, synthetic-only keys {sorted(b - a)}"
            n += 1
    return n


def obligations(tier):
    q = tier == "quick"
    kinds = ["http-resp", "http-err", "tcp", "ws", "dns-resp", "udp"] if q else ["http-req", "http-resp", "http-err", "tcp", "tcp-err", "ws", "dns-req", "dns-resp", "dns-err", "udp"]
    return [
        Symx("shipped-dumps", h_dumps, bounds="8 shipped dump files (0.10 rejected; 0.11, 0.18, 0.19, 7 (two files, one with WebSocket flows), 10, 19) x every flow in them (13)",
             encoded=[ENCODED[0], "mitmproxy.io.io:FlowReader.stream", "mitmproxy.flow:Flow.from_state"], must_reach=["loaded", "rejected-too-old"], budget_s=1800 if q else 7200),
        Smt("converter-table", build_table_queries, bounds="all integers (z3 Int): coverage of [oldest int key, FLOW_FORMAT_VERSION); per-entry target facts for all "
            "29 converters; table and targets lifted from the current source by AST", encoded=["mitmproxy.io.compat:migrate_flow"]),
        Symx("version-dispatch", h_dispatch, bounds="version = any int in [-2^31, 2^31] (symbolic) or legacy list [major 0..9, minor 0..30(, patch)] (symbolic) "
             "through the real migrate_flow loop", encoded=[ENCODED[0]], must_reach=["identity", "newer-rejected", "chain", "too-old-rejected", "tuple-rejected", "legacy-chain"],
             stubs=["converter bodies -> version effect lifted from source", "compat.converters -> SymKeyDict", "compat.isinstance shim", "str(symint) -> '<sym>'"], budget_s=1800 if q else 7200),
        Symx("synthetic-old-states", lambda X: h_synthetic(X, kinds, 1 if q else 2),
             bounds=f"{len(kinds)} flow shapes x every old format version from the first that could hold the shape (HTTP/TCP 4, WebSocket 12, DNS 17, UDP 19) to 20 x 6 "
                    f"content variants x <= {1 if q else 2} solver-chosen deviation(s) from the default shape among the optional shapes of the inverse steps (bytes hosts, sni True, missing transport_protocol, None lists, mode, "
                    "first_line_format, is_replay placement, response without timestamps, state attribute)",
             encoded=ENCODED, must_reach=["migrated", "from-4", "from-11", "from-18", "from-20", "kind-http", "kind-tcp", "kind-ws", "kind-dns", "kind-udp", "udp-transport"],
             parallel_depth=3, budget_s=1800 if q else 7200),
        Concrete("inverse-validation", validate_inverses, bounds="synthetic version-10/11 HTTP states vs shipped dumpfile-10 / dumpfile-7: key sets of state, client_conn, "
                 "server_conn, request"),
    ]
