"""C39 — stream saving writes each completed flow once and keeps open flows at shutdown.

The real `Save` addon (configure / maybe_rotate_to_new_file / every lifecycle hook / save_flow /
done) and the real `FilteredFlowWriter` are driven by a history whose steps are solver-enumerated
selectors (engine symx, native execution per path): which flow gets which lifecycle hook next,
where the filter changes, where saving stops (option unset or the `done` hook) and restarts
(overwrite or append).  The stream file is an in-memory file system entry that only shows flushed
bytes.  Oracle: a reference list of expected records written from the property sentence alone
(one per completion of a matching flow while saving is on; flows that started while saving was on
and have not completed, once when saving stops; nothing else), compared after EVERY step with the
records parsed back by the real FlowReader from the visible file content (ids and full states).
"""
import copy
import io as _io

from vf.ob import Symx

LEVEL = "model_checking"
ASSUMPTIONS = [
    "pathlib.Path inside mitmproxy.addons.save is replaced by an in-memory file system (open 'wb' truncates, 'ab' keeps; "
    "content becomes visible on flush()/close() only); datetime.strftime on a path without % fields is kept real",
    "mitmproxy.ctx.options inside the save addon is a plain object carrying save_stream_file / save_stream_filter; configure() "
    "is called with the set of option names that OptManager.update would pass (option typing/rollback is C44)",
    "flowfilter.parse is memoised inside the harness process (pyparsing cost); filter *semantics* are trusted here (C42): the menu "
    "filters are type tests whose expected value is written next to them",
    "flows are mitmproxy.test.tflow objects; a completion hook first gives the flow its response / error / close code as the proxy core would",
]
OUTSIDE = [
    "rotation to a different path by strftime fields or by changing save_stream_file while saving is on (test_rotate_stream covers one case)",
    "OSError while writing (sys.exit path)", "histories longer than the stated bound; more than 3 concurrent flows",
    "the save.file command (explicit save) — its file level behaviour is C36/C37",
]
ENCODED = [
    "mitmproxy.addons.save:Save.configure", "mitmproxy.addons.save:Save.maybe_rotate_to_new_file", "mitmproxy.addons.save:Save.save_flow",
    "mitmproxy.addons.save:Save.done", "mitmproxy.addons.save:Save.request", "mitmproxy.addons.save:Save.response",
    "mitmproxy.addons.save:Save.error", "mitmproxy.addons.save:Save.websocket_end", "mitmproxy.addons.save:Save.tcp_start",
    "mitmproxy.addons.save:Save.tcp_end", "mitmproxy.addons.save:Save.tcp_error", "mitmproxy.addons.save:Save.udp_start",
    "mitmproxy.addons.save:Save.udp_end", "mitmproxy.addons.save:Save.udp_error", "mitmproxy.addons.save:Save.dns_request",
    "mitmproxy.addons.save:Save.dns_response", "mitmproxy.addons.save:Save.dns_error", "mitmproxy.io.io:FilteredFlowWriter.add",
    "mitmproxy.io.io:FlowReader.stream",
]
STUBS = ["save.Path -> in-memory file system (visible bytes = flushed bytes)", "save.ctx -> plain options object",
         "flowfilter.parse memoised"]

KINDS = ["http", "ws", "tcp", "udp", "dns"]
# filter menu, relative to the kinds in play: index 0 = no filter (everything matches), index j+1 = an expression that
# matches exactly the flows of the same kind as flow j.  KEXPR is the reference truth table: expression -> the one kind it matches.
KEXPR = {"http": "~http & !~websocket", "ws": "~websocket", "tcp": "~tcp", "udp": "~udp", "dns": "~dns"}
PATH = "/vf/stream.mitm"

# hook name per (kind, action); "resp101" is the 101 response hook of a WebSocket flow (not a completion)
HOOKS = {
    "http": {"start": "request", "complete": "response", "error": "error"},
    "ws": {"start": "request", "complete": "websocket_end", "error": "error", "resp101": "response"},
    "tcp": {"start": "tcp_start", "complete": "tcp_end", "error": "tcp_error"},
    "udp": {"start": "udp_start", "complete": "udp_end", "error": "udp_error"},
    "dns": {"start": "dns_request", "complete": "dns_response", "error": "dns_error"},
}


def is_completion(kind, action):
    """from the property sentence: response or error for plain HTTP, WebSocket end, TCP/UDP end or error,
    DNS response or error"""
    if kind == "ws":
        return action == "complete"
    return action in ("complete", "error")


class MemFS:
    def __init__(self):
        self.visible = {}  # path -> bytes that reached the "disk" (flush/close)
        self.opens = []


class _MemFile(_io.BytesIO):
    def __init__(self, fs, path, mode):
        super().__init__()
        self._fs, self._path = fs, path
        if mode == "ab":
            super().write(fs.visible.get(path, b""))
        elif mode != "wb":
            raise OSError(f"unexpected mode {mode}")
        fs.visible[path] = self.getvalue()
        fs.opens.append(mode)

    def flush(self):
        super().flush()
        self._fs.visible[self._path] = self.getvalue()

    def close(self):
        if not self.closed:
            self._fs.visible[self._path] = self.getvalue()
        super().close()


def _mk_path_cls(fs):
    class MemPath:
        def __init__(self, p):
            self.p = str(p)

        @property
        def parent(self):
            return self

        def mkdir(self, **kw):
            return None

        def open(self, mode):
            return _MemFile(fs, self.p, mode)

    return MemPath


class _Opts:
    save_stream_file = None
    save_stream_filter = None


class _Ctx:
    def __init__(self):
        self.options = _Opts()


_parse_cache = {}


def _mk_flow(kind):
    from mitmproxy.test import tflow

    if kind == "http":
        return tflow.tflow()
    if kind == "ws":
        f = tflow.twebsocketflow()
        return f
    if kind == "tcp":
        return tflow.ttcpflow()
    if kind == "udp":
        return tflow.tudpflow()
    return tflow.tdnsflow()


def _apply_effect(f, kind, action):
    """what the proxy core has done to the flow object before the hook fires"""
    from mitmproxy.test import tflow, tutils

    if action == "complete":
        if kind == "http" and f.response is None:
            f.response = tutils.tresp()
        elif kind == "dns" and f.response is None:
            f.response = tutils.tdnsresp()
        elif kind == "ws":
            f.websocket.timestamp_end = 946681206
    elif action == "error":
        f.error = tflow.terr()


def parse_records(data):
    """-> (list of flows, None | 'FlowReadException: ...' | 'crash ...') using the real reader"""
    from mitmproxy import exceptions
    from mitmproxy.io import FlowReader

    out = []
    try:
        for fl in FlowReader(_io.BytesIO(data)).stream():
            out.append(fl)
    except exceptions.FlowReadException as e:
        return out, f"FlowReadException: {e}"
    return out, None


class History:
    """runs one history against the real Save addon; keeps the reference model alongside"""

    def __init__(self, X, kinds, prefix):
        from mitmproxy.addons import save
        from mitmproxy import flowfilter

        self.X, self.kinds, self.prefix = X, kinds, prefix
        self.save = save
        self.fs = MemFS()
        self.saved = (save.Path, save.ctx, save.flowfilter.parse)
        save.Path = _mk_path_cls(self.fs)
        self.ctx = _Ctx()
        save.ctx = self.ctx
        real_parse = self.saved[2]

        def cached_parse(s):
            if s not in _parse_cache:
                _parse_cache[s] = real_parse(s)
            return _parse_cache[s]

        self._cached_parse = cached_parse
        save.flowfilter.parse = cached_parse
        self.sa = save.Save()
        self.flows = [None] * len(kinds)
        # reference model
        self.on = False
        self.filt = 0
        self.started = []  # flow indices started while saving was on, not completed yet
        self.expected = []  # [(flow index, state snapshot)] records that must be in the file, in any order
        self.parsed = 0  # number of records already matched
        self.seen_len = 0
        self.trace = []

    def restore(self):
        self.save.Path, self.save.ctx, self.save.flowfilter.parse = self.saved
        # the flowfilter module object is shared: make sure the real parse is back
        import mitmproxy.flowfilter as ff

        ff.parse = self.saved[2]

    # -- events ------------------------------------------------------------------------------
    def flow(self, i):
        if self.flows[i] is None:
            self.flows[i] = _mk_flow(self.kinds[i])
        return self.flows[i]

    def matches(self, i):
        return self.filt == 0 or self.kinds[i] == self.kinds[self.filt - 1]

    def filter_expr(self, k):
        return None if k == 0 else KEXPR[self.kinds[k - 1]]

    def hook(self, i, action):
        kind = self.kinds[i]
        f = self.flow(i)
        _apply_effect(f, kind, action)
        self.trace.append(f"{HOOKS[kind][action]}(f{i}:{kind})")
        getattr(self.sa, HOOKS[kind][action])(f)
        # reference
        if action == "start":
            if self.on and i not in self.started:
                self.started.append(i)
        elif is_completion(kind, action):
            if self.on:
                if self.matches(i):
                    self.expected.append((i, copy.deepcopy(f.get_state())))
                    self.X.reach("record-on-completion")
                else:
                    self.X.reach("filtered-out")
                if i in self.started:
                    self.started.remove(i)

    def set_filter(self, k):
        self.trace.append(f"filter={self.filter_expr(k)!r}")
        self.ctx.options.save_stream_filter = self.filter_expr(k)
        self.sa.configure({"save_stream_filter"})
        self.filt = k

    def start_saving(self, append):
        self.trace.append("save_stream_file=" + ("+" if append else "") + PATH)
        self.ctx.options.save_stream_file = ("+" if append else "") + PATH
        self.sa.configure({"save_stream_file"})
        if not self.on:
            if not append:
                self.expected = []
                self.parsed = 0
                self.seen_len = 0
            self.on = True

    def stop_saving(self, how):
        self.trace.append(how)
        if how == "unset-option":
            self.ctx.options.save_stream_file = None
            self.sa.configure({"save_stream_file"})
        else:
            self.sa.done()
        if self.on:
            for i in self.started:
                if self.matches(i):
                    self.expected.append((i, copy.deepcopy(self.flows[i].get_state())))
                    self.X.reach("record-at-stop")
            self.started = []
            self.on = False

    # -- observation -------------------------------------------------------------------------
    def check_file(self, final=False):
        """the visible file content must parse completely into exactly the expected records"""
        X = self.X
        data = self.fs.visible.get(PATH, b"")
        if final:
            new, start = data, 0
        else:
            if len(data) < self.seen_len:
                X.fail(f"{self.prefix}/file-shrunk", f"file shrank from {self.seen_len} to {len(data)} bytes after {self.trace}")
            new, start = data[self.seen_len:], self.parsed
        flows, err = parse_records(new)
        if err is not None:
            X.fail(f"{self.prefix}/unparsable-stream-file", f"stream file does not parse into whole flows after {self.trace}: {err}")
        want = self.expected[start:] if not final else self.expected
        got_ids = sorted(f.id for f in flows)
        want_ids = sorted(self.flows[i].id for i, _ in want)
        if got_ids != want_ids:
            names = {self.flows[i].id: f"f{i}:{self.kinds[i]}" for i in range(len(self.kinds)) if self.flows[i] is not None}
            g = sorted(names.get(x, x) for x in got_ids)
            w = sorted(names.get(x, x) for x in want_ids)
            kind = "missing" if len(g) < len(w) else ("extra" if len(g) > len(w) else "wrong")
            X.fail(f"{self.prefix}/{kind}-record", f"after {self.trace}: new records in file {g}, expected {w}")
        # content: each record is the flow's state at the moment it had to be written
        pool = [s for _, s in want]
        for fl in flows:
            st = fl.get_state()
            if st in pool:
                pool.remove(st)
            else:
                X.fail(f"{self.prefix}/record-content", f"after {self.trace}: record of flow {fl.id} differs from the flow's state at write time")
        if not final:
            self.seen_len = len(data)
            self.parsed = len(self.expected)

    def check_state(self):
        """representation relation between the addon's fields and the reference state (these four fields are all
        the state `Save` has, so a step that re-establishes the relation makes the single-step obligation inductive)"""
        X, sa = self.X, self.sa
        where = f"after {self.trace}"
        X.check((sa.stream is not None) == self.on, f"{self.prefix}/state/stream", f"{where}: stream open={sa.stream is not None}, saving on={self.on}")
        act = sorted(self.flows.index(f) if f in self.flows else -1 for f in sa.active_flows)
        X.check(act == sorted(self.started), f"{self.prefix}/state/active-flows", f"{where}: active_flows={act}, started and not completed={sorted(self.started)}")
        X.check(sa.current_path == (PATH if self.on else None), f"{self.prefix}/state/current-path", f"{where}: current_path={sa.current_path!r}")
        exp = self.filter_expr(self.filt)
        X.check((sa.filt is None) if exp is None else (sa.filt is not None and sa.filt.pattern == exp), f"{self.prefix}/state/filter",
                f"{where}: addon filter {getattr(sa.filt, 'pattern', None)!r}, option {exp!r}")
        if self.on:
            X.check(sa.stream.flt is sa.filt, f"{self.prefix}/state/writer-filter", f"{where}: the open writer does not use the configured filter")


def scenarios(tier, nflows):
    """flow-kind tuples for the explicit histories: every kind in every slot (cyclic) + equal kinds"""
    if nflows == 2:
        if tier == "quick":
            return [("http", "ws"), ("tcp", "dns")]
        return [(KINDS[i], KINDS[(i + 1) % 5]) for i in range(5)] + [("http", "http")]
    if tier == "quick":
        return [("http", "ws", "tcp"), ("udp", "dns", "http"), ("http", "tcp", "http")]
    return [(KINDS[i], KINDS[(i + 1) % 5], KINDS[(i + 3) % 5]) for i in range(5)] + [("http", "ws", "http")]


def _menu(H, kinds, hooks_ok=True, config_ok=True, ordered=True):
    menu = []
    if hooks_ok:
        for i in range(len(kinds)):
            if ordered and i > 0 and H.flows[i - 1] is None and kinds[i] == kinds[i - 1]:
                continue  # interchangeable flows: introduce in order
            for a in ("start", "complete", "error") + (("resp101",) if kinds[i] == "ws" else ()):
                menu.append(("hook", i, a))
    if config_ok:
        seen = set()
        for k in range(len(kinds) + 1):
            e = H.filter_expr(k)
            if k != H.filt and e not in seen:
                seen.add(e)
                menu.append(("filter", k))
        if H.on:
            menu += [("stop", "unset-option"), ("stop", "done-hook")]
        else:
            menu += [("start", False), ("start", True)]
    return menu


def _apply(H, X, ev):
    if ev[0] == "hook":
        H.hook(ev[1], ev[2])
    elif ev[0] == "filter":
        H.set_filter(ev[1])
        X.reach("filter-change")
    elif ev[0] == "stop":
        H.stop_saving(ev[1])
    else:
        H.start_saving(ev[1])
        X.reach("restart-append" if ev[1] else "restart-overwrite")


def run_history(X, tier, nflows, nhooks, nconfig, prefix="C39"):
    """explicit histories from the initial state (saving off / on without filter)"""
    kinds = X.choose("kinds", scenarios(tier, nflows))
    H = History(X, kinds, prefix)
    try:
        if X.boolean("initially_on"):
            H.start_saving(False)
        H.check_file()
        hooks = config = 0
        while True:
            menu = _menu(H, kinds, hooks < nhooks, config < nconfig) + [("end",)]
            ev = X.choose("step", menu)
            if ev[0] == "end":
                break
            if ev[0] == "hook":
                hooks += 1
            else:
                config += 1
            _apply(H, X, ev)
            H.check_file()
            H.check_state()
        # shutdown: saving stops (if it is on) — still-active matching flows are written once
        if H.on:
            H.stop_saving(X.choose("shutdown", ["unset-option", "done-hook"]))
        H.check_file()
        H.check_state()
        H.check_file(final=True)
        X.reach("end")
        X.note("history", H.trace)
    finally:
        H.restore()


def run_step(X, tier, nflows, prefix="C39"):
    """inductive step: EVERY abstract state (saving on/off, filter, which flows are started-and-open, file with or
    without earlier records) is first reached through the real addon by a canonical history, the representation
    relation is checked, then ONE event from the full menu is applied and file + relation are checked again.  Together
    with `check_state` covering all of Save's fields this extends the claim to histories of any length."""
    kinds = tuple(X.choose(f"kind{i}", KINDS) for i in range(nflows))
    H = History(X, kinds, prefix)
    try:
        earlier = X.boolean("earlier_records")
        if earlier:  # an earlier saving period left records in the file
            H.start_saving(False)
            H.hook(0, "complete")
            H.stop_saving("unset-option")
        filt = X.choose("pre_filter", nflows + 1)
        if filt and H.filter_expr(filt) in [H.filter_expr(k) for k in range(1, filt)]:
            X.assume(False)  # same expression as a smaller index
        if filt:
            H.set_filter(filt)
        if X.boolean("pre_on"):
            H.start_saving(X.boolean("pre_append") if earlier else False)
            for i in range(nflows):
                if X.boolean(f"pre_started{i}"):
                    H.hook(i, "start")
        H.check_file()
        H.check_state()
        H.trace.append("|")
        ev = X.choose("event", _menu(H, kinds, ordered=False))
        _apply(H, X, ev)
        H.check_file()
        H.check_state()
        H.check_file(final=True)
        X.reach("end")
        X.note("history", H.trace)
    finally:
        H.restore()


REACH = ["end", "record-on-completion", "record-at-stop", "filtered-out", "filter-change", "restart-append", "restart-overwrite"]


def obligations(tier):
    q = tier == "quick"
    n2, c2 = (3, 1) if q else (4, 1)
    n3, c3 = (2, 1) if q else (3, 1)
    ns = 2 if q else 3
    bud = 1800 if q else 7200
    return [
        Symx("inductive-step", lambda X: run_step(X, tier, ns),
             bounds=f"all {5 ** ns} kind tuples of {ns} flows over {{HTTP, HTTP+WebSocket, TCP, UDP, DNS}} x every abstract state (saving on/off, "
                    f"filter none / matching only flow j's kind, every subset of flows started-and-open, file empty / holding earlier records, "
                    "reopened overwrite/append) x every single event (start / completion / error / 101-response hook of any flow, filter "
                    "change, stop by option unset or done hook, start overwrite/append); file and all Save fields checked before and after",
             encoded=ENCODED, must_reach=REACH, stubs=STUBS, parallel_depth=3, budget_s=bud),
        Symx("history-2-flows", lambda X: run_history(X, tier, 2, n2, c2),
             bounds=f"every history of <= {n2} lifecycle hooks over 2 flows ({len(scenarios(tier, 2))} kind pairs) with <= {c2} configuration "
                    "event (filter change / stop by option unset or done hook / restart overwrite or append) at any position, then shutdown; "
                    "initial state off or on; file and addon state checked after every step",
             encoded=ENCODED, must_reach=REACH, stubs=STUBS, parallel_depth=4, budget_s=bud),
        Symx("history-3-flows", lambda X: run_history(X, tier, 3, n3, c3),
             bounds=f"as above with 3 concurrent flows ({len(scenarios(tier, 3))} kind triples), <= {n3} hooks, <= {c3} configuration event",
             encoded=ENCODED, must_reach=REACH, stubs=STUBS, parallel_depth=4, budget_s=bud),
    ]
