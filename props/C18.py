"""C18 — ALPN selection for the client is consistent with the client's offers and with upstream.

The real `TlsConfig.tls_start_server` (offer filter), `TlsConfig.tls_start_client` (client_alpn override for
secure web proxies, AppData construction, callback wiring) and `alpn_select_callback` are executed; only the
pyOpenSSL objects are replaced by recorders.  Protocol names are *symbolic byte strings* (vf.symbytes) of
solver-chosen length, so one path covers every name the code does not distinguish: length 2 covers h2, h3 and
every other 2-byte name, length 8 covers http/1.1, http/1.0, http/0.9 and every other 8-byte name, length 0 is
the empty name, length 5 stands for names of any other length.  The upstream state is chosen by the solver
among: unknown (no upstream handshake yet), nothing negotiated (b""), or one of the names the real filter put
into `set_alpn_protos` — i.e. exactly what an upstream server could have selected.

Oracle = the four clauses of the property, on the value returned by the callback the recorder received.
"""
from OpenSSL import SSL as REAL_SSL

from mitmproxy import tls as mtls
from mitmproxy.addons import tlsconfig
from mitmproxy.net import tls as real_net_tls
from mitmproxy.proxy.layers import http as http_layer
from mitmproxy.proxy.layers import modes
from mitmproxy.proxy.layers import tls as ltls

from vf import sansio, symx
from vf.ob import Symx
from vf.symbytes import SymBytes

LEVEL = "model_checking"
ASSUMPTIONS = [
    "pyOpenSSL replaced by recorders: SSL.Connection (set_app_data/get_app_data/set_alpn_protos/... recorded), "
    "net_tls.create_client_proxy_context / create_proxy_server_context (keyword arguments recorded), SSL._lib hostname-verification "
    "calls (no-ops returning 1); TlsConfig.get_cert -> dummy entry (certificates are C16)",
    "OpenSSL calls the recorded alpn_select_callback with exactly the client's offer list, in order (OpenSSL trusted)",
    "the upstream server selects one of the protocols mitmproxy offered to it or none (RFC 7301 §3.2); mitmproxy's own view of the "
    "client's offers (client.alpn_offers, C13) equals the list OpenSSL passes to the callback",
    "client.alpn is None when tls_start_client runs (it is only set after the handshake; ClientTLSLayer.__init__ resets it for TLS-over-TLS) "
    "and server.alpn_offers is not pre-set by another addon",
    "on the outer connection of a secure web proxy (layers == [HttpProxy, ClientTLSLayer]) no upstream connection exists yet "
    "(context.server.address is None, tls_start_server asserts an address): upstream state is 'unknown' there",
]
OUTSIDE = ["QUIC (quic_start_client / quic_start_server)", "offer lists longer than the bound", "what OpenSSL does with the callback's return value",
           "addons that overwrite client.alpn / server.alpn_offers / ssl_conn themselves"]
ENCODED = ["mitmproxy.addons.tlsconfig:alpn_select_callback", "mitmproxy.addons.tlsconfig:TlsConfig.tls_start_client",
           "mitmproxy.addons.tlsconfig:TlsConfig.tls_start_server"]
STUBS = ["tlsconfig.SSL -> recorder namespace (Connection, _lib, _openssl_assert; real NO_OVERLAPPING_PROTOCOLS)",
         "tlsconfig.net_tls -> recorder context factories (real Method/Version/Verify/get_curve)", "tlsconfig.ctx -> options holder",
         "TlsConfig.get_cert -> dummy entry"]

NO_OVERLAP = REAL_SSL.NO_OVERLAPPING_PROTOCOLS


class RecCtx:
    def __init__(self, kind, kw):
        self.kind, self.kw = kind, kw


class RecConn:
    """records what tlsconfig does to the pyOpenSSL connection object"""

    def __init__(self, ssl_ctx):
        self.ctx = ssl_ctx
        self.app_data = None
        self.alpn_protos = None
        self.state = None
        self.calls = []
        self._ssl = object()

    def set_app_data(self, d):
        self.app_data = d

    def get_app_data(self):
        return self.app_data

    def set_alpn_protos(self, protos):
        self.alpn_protos = list(protos)

    def set_accept_state(self):
        self.state = "accept"

    def set_connect_state(self):
        self.state = "connect"

    def __getattr__(self, name):
        if name.startswith("__"):
            raise AttributeError(name)
        return lambda *a, **k: self.calls.append(name)


class _Lib:
    def __getattr__(self, name):
        return lambda *a, **k: 1


class FakeSSL:
    Connection = RecConn
    NO_OVERLAPPING_PROTOCOLS = NO_OVERLAP
    _lib = _Lib()

    @staticmethod
    def _openssl_assert(ok):
        assert ok


class FakeNetTls:
    Method, Version, Verify = real_net_tls.Method, real_net_tls.Version, real_net_tls.Verify
    INSECURE_TLS_MIN_VERSIONS = real_net_tls.INSECURE_TLS_MIN_VERSIONS
    get_curve = staticmethod(real_net_tls.get_curve)

    @staticmethod
    def create_client_proxy_context(**kw):
        return RecCtx("client", kw)

    @staticmethod
    def create_proxy_server_context(**kw):
        return RecCtx("server", kw)


class _Entry:
    chain_file = None
    privatekey = object()

    class cert:
        @staticmethod
        def to_cryptography():
            return object()


class _Store:
    dhparams = None


_OPTS = {}


def _options(http2):
    if http2 not in _OPTS:
        _OPTS[http2] = sansio.make_options(http2=http2)
    return _OPTS[http2]


class _Ctx:
    def __init__(self, options):
        self.options = options


def eq(a, b):
    """a == b for protocol names, decided with ONE solver fork (conjunction over the bytes) instead of one per byte"""
    if a is b:
        return True
    a = list(a.items) if isinstance(a, SymBytes) else list(a)
    b = list(b.items) if isinstance(b, SymBytes) else list(b)
    if len(a) != len(b):
        return False
    c = True
    for x, y in zip(a, b):
        c = c & (x == y)
    return bool(c)


class Name(SymBytes):
    """protocol name with symbolic bytes; same value semantics as SymBytes, whole-string equality is a single fork"""

    def __eq__(self, o):
        if not isinstance(o, (bytes, bytearray, SymBytes)):
            return False
        return eq(self, o)

    def __ne__(self, o):
        return not self.__eq__(o)

    __hash__ = SymBytes.__hash__


def show(p):
    if p is NO_OVERLAP:
        return "NO_OVERLAPPING_PROTOCOLS"
    if p is None:
        return "None"
    its = list(p.items) if isinstance(p, SymBytes) else list(p)
    return repr(bytes(symx.concretize(x) for x in its))


LENGTHS = [0, 2, 8, 5]
STACKS = ["secure-web-proxy-outer", "regular-inner", "reverse-two-layers", "transparent", "secure-web-proxy-inner"]


def h_alpn(X, maxlen):
    http2 = X.boolean("http2")
    stack = X.choose("stack", STACKS)
    n = X.choose("n_offers", maxlen + 1)
    offers = []
    for i in range(n):
        ln = X.choose(f"len{i}", LENGTHS)
        b = X.bytes(f"offer{i}", ln)
        offers.append(b if isinstance(b, bytes) else (b.concrete() if b.concrete() is not None else Name(b.items)))
    opts = _options(http2)
    saved = (tlsconfig.SSL, tlsconfig.net_tls, tlsconfig.ctx)
    tlsconfig.SSL, tlsconfig.net_tls, tlsconfig.ctx = FakeSSL, FakeNetTls, _Ctx(opts)
    try:
        ctx = sansio.make_context(opts, mode="regular" if stack in (STACKS[0], STACKS[1], STACKS[4]) else ("reverse:https://example.com" if stack == STACKS[2] else "transparent"))
        if stack == "secure-web-proxy-outer":
            modes.HttpProxy(ctx)
        elif stack == "regular-inner":
            modes.HttpProxy(ctx)
            http_layer.HttpLayer(ctx, http_layer.HTTPMode.regular)
            ltls.ServerTLSLayer(ctx)
        elif stack == "secure-web-proxy-inner":
            # TLS-over-TLS: the outer connection of a secure web proxy is established (it was forced to http/1.1); after
            # CONNECT the client starts the tunnelled handshake, handled by a second ClientTLSLayer on the same client object
            modes.HttpProxy(ctx)
            ltls.ClientTLSLayer(ctx)
            ctx.client.tls = True
            ctx.client.timestamp_tls_setup = 1.0
            ctx.client.alpn = b"http/1.1"
            ctx.client.alpn_offers = [b"http/1.1"]
            http_layer.HttpLayer(ctx, http_layer.HTTPMode.regular)
            ltls.ServerTLSLayer(ctx)
            X.reach("tls-over-tls")
        elif stack == "reverse-two-layers":
            modes.ReverseProxy(ctx)
        else:
            modes.TransparentProxy(ctx)
            ltls.ServerTLSLayer(ctx)
        ltls.ClientTLSLayer(ctx)
        client, server = ctx.client, ctx.server
        client.sni = "example.com"
        client.alpn_offers = list(offers)  # what ClientTLSLayer.receive_handshake_data stores from the parsed hello
        tc = tlsconfig.TlsConfig()
        tc.get_cert = lambda conn_context: _Entry
        tc.certstore = _Store

        # ---- upstream: what could the server have negotiated?
        if stack == "secure-web-proxy-outer":
            upstream = "unknown"
        else:
            upstream = X.choose("upstream", ["unknown", "handshake-done", "handshake-done-foreign"])
        if upstream == "handshake-done":
            server.address = ("example.com", 443)
            sdata = mtls.TlsData(server, ctx)
            tc.tls_start_server(sdata)
            sconn = sdata.ssl_conn
            X.check(isinstance(sconn, RecConn) and sconn.state == "connect", "C18/harness/server-conn", "tls_start_server did not build a connection")
            wire = sconn.alpn_protos or []  # the ALPN extension mitmproxy sends upstream
            pick = X.choose("server_selects", len(wire) + 1)
            if pick == len(wire):
                server.alpn = b""  # get_alpn_proto_negotiated() when nothing was negotiated
                X.reach("upstream-none")
            else:
                p = wire[pick]
                server.alpn = p
                X.reach("upstream-selected")
        elif upstream == "handshake-done-foreign":
            # The server connection carries a protocol that does not come from mitmproxy's own offer filter:
            # an addon pre-set server.alpn_offers in the tls_start_server hook (documented API), or the connection
            # was negotiated for other offers.  Clause (2) of the property is judged only under the derived
            # precondition above, and so is (3) (with http2 off the real filter never offers h2 upstream, so an upstream h2
            # can only come from such an override); clause (1) is unconditional and is judged here as well.
            server.address = ("example.com", 443)
            server.alpn = X.choose("foreign_alpn", [b"h2", b"http/1.1", b"h3", b"zz"])
            X.reach("upstream-foreign")
        else:
            X.reach("upstream-unknown")

        # ---- client side
        cdata = mtls.TlsData(client, ctx)
        tc.tls_start_client(cdata)
        conn = cdata.ssl_conn
        X.check(isinstance(conn, RecConn) and conn.state == "accept", "C18/harness/client-conn", "tls_start_client did not build a connection")
        cb = conn.ctx.kw.get("alpn_select_callback")
        X.check(callable(cb), "C18/no-callback", "no ALPN select callback installed on the client context")
        try:
            result = cb(conn, list(offers))
        except (symx.Violation, symx.Unsupported):
            raise
        except Exception as e:  # noqa
            X.fail(f"C18/callback-raises-{type(e).__name__}", f"alpn_select_callback raised {e!r}")
    finally:
        tlsconfig.SSL, tlsconfig.net_tls, tlsconfig.ctx = saved

    none = result is NO_OVERLAP
    X.check(none or isinstance(result, (bytes, SymBytes)), "C18/result-type", f"callback returned {result!r}")

    def fail(key, what):
        # (messages are built only on failure: rendering a symbolic name realises its bytes)
        X.fail(key, f"{what}; offers={[show(o) for o in offers]} upstream={show(server.alpn)} http2={http2} stack={stack} selected={show(result)}")

    # (1) one of the client's offers, or none
    if not (none or any(eq(result, o) for o in offers)):
        fail("C18/not-offered", "selected a protocol the client did not offer")
    # (2) upstream known => that protocol or none
    if server.alpn is not None and upstream != "handshake-done-foreign":
        X.reach("upstream-known")
        if not (none or (len(server.alpn) > 0 and eq(result, server.alpn))):
            fail("C18/differs-from-upstream", "selected protocol differs from the one negotiated upstream")
    # (3) http2 disabled => never h2
    if not http2 and not none and upstream != "handshake-done-foreign" and eq(result, b"h2"):
        fail("C18/h2-while-disabled", "h2 selected with http2=False")
    # (4) outer connection of a secure web proxy => http/1.1 only
    if stack == "secure-web-proxy-outer":
        X.reach("secure-web-proxy")
        if not (none or eq(result, b"http/1.1")):
            fail("C18/secure-web-proxy-not-http1", "protocol other than http/1.1 selected on a secure web proxy's outer connection")
    X.reach("none" if none else "selected")
    if not none and eq(result, b"h2"):
        X.reach("h2-selected")


def obligations(tier):
    n = 4 if tier == "quick" else 5
    return [
        Symx("alpn-selection", lambda X: h_alpn(X, n),
             bounds=f"client offer lists of 0..{n} names, each a fully symbolic byte string of length 0/2/8/5 (covers h2, h3, http/1.1, http/1.0, http/0.9, "
                    "empty and all unknown names of these lengths) x upstream {unknown, none negotiated, any name the real tls_start_server offered, a name from outside that filter (clause 1 only)} x http2 x "
                    "5 layer stacks (secure web proxy outer, regular inner, reverse with 2 layers, transparent, tunnelled handshake inside a secure web proxy)",
             encoded=ENCODED, must_reach=["selected", "none", "h2-selected", "upstream-known", "upstream-none", "upstream-selected", "upstream-unknown", "upstream-foreign", "secure-web-proxy", "tls-over-tls"],
             stubs=STUBS, parallel_depth=4),
    ]
