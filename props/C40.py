"""C40 — backup, revert and copy behave exactly.

The real `Flow.backup / revert / modified / copy / get_state / set_state` (and the HTTP/TCP/UDP/DNS/WebSocket state
code under them) are executed on flows from `mitmproxy.test.tflow`, driven by solver-enumerated histories of
operations {backup, revert, edit field:=original value, edit field:=other value, copy-then-edit-copy,
copy-then-edit-original}.  Oracle: a reference pair (state, backup) of plain dicts over the edited fields, plus the
flow's own `get_state()` snapshot taken at backup time for the "restores exactly" clause.

Every check of a path is evaluated (failures are collected, the path is not cut at the first one) so that a known
defect in one observable cannot mask the others; the failure reported for a path is the first one whose key is not
one of the two classes found on the unchanged tree (modified() / copy's backup id), else the first.
"""
import copy

from vf.ob import Symx
from vf.refs import flowio as F

LEVEL = "model_checking"
ASSUMPTIONS = [
    "flows are the fixtures of mitmproxy.test.tflow (HTTP with response, HTTP with WebSocket messages, TCP, UDP, DNS with response); ids and "
    "wall-clock timestamps inside them are arbitrary and never branched on",
    "oracle = reference pair (state, backup) of plain dicts over the edited fields: modified <=> backup exists and state != backup; "
    "revert => state == backup and backup cleared; independent of Flow's implementation",
    "per history two fields (f1, its successor f2 in the type's field list) are edited; each takes its original or one other value",
]
OUTSIDE = ["histories longer than the bound", "edits to connection objects (client_conn/server_conn) and to Flow.error", "live flows being resumed/killed while backed up (C11)"]
ENCODED = [
    "mitmproxy.flow:Flow.backup", "mitmproxy.flow:Flow.revert", "mitmproxy.flow:Flow.modified", "mitmproxy.flow:Flow.copy",
    "mitmproxy.flow:Flow.get_state", "mitmproxy.flow:Flow.set_state", "mitmproxy.flow:Flow.from_state",
    "mitmproxy.coretypes.serializable:Serializable.copy", "mitmproxy.http:HTTPFlow.get_state", "mitmproxy.http:HTTPFlow.set_state",
    "mitmproxy.http:HTTPFlow.copy", "mitmproxy.http:MessageData.get_state", "mitmproxy.http:MessageData.set_state",
    "mitmproxy.tcp:TCPFlow.get_state", "mitmproxy.tcp:TCPFlow.set_state", "mitmproxy.udp:UDPFlow.get_state", "mitmproxy.udp:UDPFlow.set_state",
    "mitmproxy.dns:DNSFlow.get_state", "mitmproxy.dns:DNSFlow.set_state", "mitmproxy.websocket:WebSocketData.get_state",
]

KEY_MOD = "C40/modified/true-while-unchanged"
KEY_COPYID = "C40/copy/backup-keeps-original-id"


# ------------------------------------------------------------------------------------------
# field menus: name -> (getter, setter, other value).  A value of None means "absent".

def _hdr_get(f):
    return f.request.headers.get("x-edit")


def _hdr_set(f, v):
    if v is None:
        f.request.headers.pop("x-edit", None)
    else:
        f.request.headers["x-edit"] = v


def _meta_get(f):
    v = f.metadata.get("k")
    return None if v is None else list(v)


def _meta_set(f, v):
    if v is None:
        f.metadata.pop("k", None)
    elif "k" in f.metadata:
        # in-place mutation of a nested value: this is what "deep" independence is about
        del f.metadata["k"][:]
        f.metadata["k"].extend(v)
    else:
        f.metadata["k"] = list(v)


def _attr(path):
    *objs, last = path.split(".")

    def get(f):
        o = f
        for p in objs:
            o = o[int(p)] if p.isdigit() else getattr(o, p)
        return getattr(o, last)

    def set_(f, v):
        o = f
        for p in objs:
            o = o[int(p)] if p.isdigit() else getattr(o, p)
        setattr(o, last, v)

    return get, set_


def _meta_alt(cur):
    """the 'other value' of the metadata field depends on the current one: an item is appended (in place when the key
    exists), so that a backup / copy sharing the nested list with the live flow is noticed"""
    return (cur or []) + ["v"]


COMMON = [
    ("metadata", _meta_get, _meta_set, _meta_alt),
    ("marked", *_attr("marked"), ":grapes:"),
    ("comment", *_attr("comment"), "a comment"),
]
FIELDS = {
    "http": [
        ("request.method", *_attr("request.method"), "PUT"),
        ("request.port", *_attr("request.port"), 8080),
        ("request.header", _hdr_get, _hdr_set, "1"),
        ("response.status_code", *_attr("response.status_code"), 404),
        ("response.content", *_attr("response.content"), b"new body"),
    ] + COMMON,
    "ws": [
        ("websocket.message.content", *_attr("websocket.messages.1.content"), b"edited text"),
        ("response.content", *_attr("response.content"), b"new body"),
        ("marked", *_attr("marked"), ":grapes:"),
    ],
    "tcp": [("message.content", *_attr("messages.0.content"), b"edited")] + COMMON,
    "udp": [("message.content", *_attr("messages.1.content"), b"edited")] + COMMON,
    "dns": [
        ("request.id", *_attr("request.id"), 4242),
        ("response.response_code", *_attr("response.response_code"), 3),
        ("metadata", _meta_get, _meta_set, _meta_alt),
        ("comment", *_attr("comment"), "a comment"),
    ],
}


def _make(kind):
    from mitmproxy.test import tflow

    if kind == "http":
        return tflow.tflow(resp=True)
    if kind == "ws":
        f = tflow.tflow(resp=True, ws=True)
        # closed by the server, without a reason: optional fields holding False / "" (not None)
        f.websocket.closed_by_client = False
        f.websocket.close_reason = ""
        f.websocket.close_code = 1000
        return f
    if kind == "tcp":
        return tflow.ttcpflow()
    if kind == "udp":
        return tflow.tudpflow()
    return tflow.tdnsflow(resp=True)


def _content(f):
    """the flow's complete serialisable state without the backup slot (what 'restores exactly' is judged on)"""
    s = f.get_state()
    s.pop("backup", None)
    # ... and the objects' attributes as an addon reads them, taken without get_state(): a value that get_state()/set_state()
    # normalise away on both sides (e.g. a falsy optional field) is invisible in the state dicts alone
    av = F.attr_view(f)
    av[2].pop("id", None)
    s["__attributes__"] = av
    return s


class Ref:
    """reference pair (state, backup) of plain dicts"""

    def __init__(self, state):
        self.state = dict(state)
        self.backup = None

    def do_backup(self):
        if self.backup is None:
            self.backup = copy.deepcopy(self.state)

    def do_revert(self):
        if self.backup is not None:
            self.state = self.backup
            self.backup = None

    def modified(self):
        return self.backup is not None and self.state != self.backup


def h_history(X, steps, kinds):
    kind = X.choose("flow", kinds)
    fields = FIELDS[kind]
    i1 = X.choose("field", len(fields))
    pair = [fields[i1], fields[(i1 + 1) % len(fields)]]
    f = _make(kind)
    orig = {nm: get(f) for nm, get, _, _ in pair}
    alt = {nm: a for nm, _, _, a in pair}
    getters = {nm: get for nm, get, _, _ in pair}
    setters = {nm: st for nm, _, st, _ in pair}

    def rd(nm, fl):
        try:
            return getters[nm](fl)
        except Exception as e:  # noqa: BLE001 - an unreadable field is an observation, judged by the comparisons below
            return f"<unreadable: {type(e).__name__}>"

    def obs(fl):
        return {nm: rd(nm, fl) for nm in getters}

    def wr(nm, fl, v, where):
        try:
            setters[nm](fl, copy.deepcopy(v))
        except Exception as e:  # noqa: BLE001 - e.g. the object to edit no longer exists after a revert/copy
            chk(False, "C40/edit/field-not-writable", f"{where}: cannot set {nm}: {type(e).__name__}: {e}")

    def other(nm, cur):
        a = alt[nm]
        if callable(a):
            return a(cur)
        return a if cur != a else orig[nm]

    ref = Ref(obs(f))
    snap_at_backup = None
    fails = []

    def chk(cond, key, msg):
        if not cond:
            fails.append((key, msg))

    trace = []
    X.check(f.modified() is False and f.live is True, "C40/fixture", "fresh fixture is modified / not live")
    for step in range(steps):
        try:
            op = X.choose("op", ["backup", "revert", "set f1 original", "set f1 other", "set f2 original", "set f2 other", "copy, edit copy (f1)", "copy, edit original (f2)"])
        except KeyError:
            if X.symbolic:
                raise
            break  # concrete replay of a counterexample recorded with a shorter history bound (other tier)
        trace.append(op)
        where = f"{kind} flow, fields {[p[0] for p in pair]}, history {trace}"
        if op == "backup":
            had = ref.backup is not None
            f.backup()
            ref.do_backup()
            if not had:
                snap_at_backup = _content(f)
                X.reach("backup-taken")
            else:
                X.reach("second-backup-ignored")
                # a second backup must not replace the first one (revert still goes to the first)
        elif op == "revert":
            had = ref.backup is not None
            f.revert()
            ref.do_revert()
            if had:
                X.reach("reverted")
                now = _content(f)
                chk(now == snap_at_backup, "C40/revert/state-not-restored", f"{where}: state after revert differs from the state at backup time: "
                    f"{_diff(snap_at_backup, now)}")
                chk(f.get_state().get("backup") is None, "C40/revert/backup-not-cleared", f"{where}: backup still present after revert")
                snap_at_backup = None
        elif op.startswith("set"):
            nm = pair[0][0] if "f1" in op else pair[1][0]
            v = orig[nm] if op.endswith("original") else (alt[nm](ref.state[nm]) if callable(alt[nm]) else alt[nm])
            wr(nm, f, v, where)
            ref.state[nm] = copy.deepcopy(v)
        else:
            edit_copy = "edit copy" in op
            nm = pair[0][0] if edit_copy else pair[1][0]
            before_f = _content(f)
            c = f.copy()
            X.reach("copied")
            chk(type(c) is type(f) and c is not f, "C40/copy/type", f"{where}: copy is {type(c).__name__}")
            chk(c.id != f.id and isinstance(c.id, str) and len(c.id) > 0, "C40/copy/id-not-fresh", f"{where}: copy id {c.id!r} vs original {f.id!r}")
            chk(c.live is False, "C40/copy/live", f"{where}: copy.live = {c.live!r}")
            cc, fc = _content(c), _content(f)
            cc.pop("id"), fc.pop("id")
            chk(cc == fc, "C40/copy/content-differs", f"{where}: copy content differs: {_diff(fc, cc)}")
            chk(obs(c) == ref.state, "C40/copy/content-differs", f"{where}: copy fields {obs(c)} != {ref.state}")
            cb = c.get_state().get("backup")
            if cb is not None:
                X.reach("copied-with-backup")
                chk(cb.get("id") == c.id, KEY_COPYID, f"{where}: the copy (id {c.id!r}) carries a backup whose id is the original's ({cb.get('id')!r}): "
                    "reverting the copy turns it into a second flow with the original's id")
            chk(c.modified() == f.modified(), "C40/copy/modified-differs", f"{where}: copy.modified()={c.modified()} original {f.modified()}")
            chk(_content(f) == before_f, "C40/copy/original-changed-by-copy", f"{where}: copy() itself changed the original")
            if edit_copy:
                v = other(nm, ref.state[nm])
                wr(nm, c, v, where)
                chk(rd(nm, c) == v, "C40/copy/edit-lost", f"{where}: edit of {nm} on the copy did not take")
                chk(_content(f) == before_f and obs(f) == ref.state, "C40/copy/not-independent", f"{where}: editing {nm} on the copy changed the original: {_diff(before_f, _content(f))}")
                c.revert()
                chk(c.id != f.id, KEY_COPYID, f"{where}: after copy.revert() the copy has the original's id {f.id!r}")
                c.backup()
                chk(_content(f) == before_f, "C40/copy/not-independent", f"{where}: revert/backup on the copy changed the original")
                chk((f.get_state().get("backup") is None) == (ref.backup is None), "C40/copy/not-independent", f"{where}: revert/backup on the copy changed the original's backup")
            else:
                before_c = _content(c)
                v = other(nm, ref.state[nm])
                wr(nm, f, v, where)
                ref.state[nm] = copy.deepcopy(v)
                chk(_content(c) == before_c, "C40/copy/not-independent", f"{where}: editing {nm} on the original changed the copy: {_diff(before_c, _content(c))}")
                f_back = f.get_state().get("backup")
                c.revert()
                chk(f.get_state().get("backup") == f_back and obs(f) == ref.state, "C40/copy/not-independent", f"{where}: reverting the copy changed the original")
        # after every operation: fields and modified() agree with the reference pair
        chk(obs(f) == ref.state, f"C40/state/{op.split(',')[0].split(' ')[0]}", f"{where}: fields {obs(f)} != reference {ref.state}")
        got_m, exp_m = f.modified(), ref.modified()
        if got_m != exp_m:
            if got_m and not exp_m and ref.backup is not None:
                chk(False, KEY_MOD, f"{where}: modified() is True although the current state equals the backup (fields {ref.state})")
            else:
                chk(False, "C40/modified/wrong", f"{where}: modified()={got_m}, reference {exp_m} (state {ref.state}, backup {ref.backup})")
        if exp_m:
            X.reach("modified-true")
        if ref.backup is not None and not exp_m:
            X.reach("backup-but-unmodified")
        chk((f.get_state().get("backup") is not None) == (ref.backup is not None), "C40/backup/presence", f"{where}: backup present={f.get_state().get('backup') is not None}, reference {ref.backup is not None}")
    X.reach("end")
    if fails:
        first = next((x for x in fails if x[0] not in (KEY_MOD, KEY_COPYID)), next((x for x in fails if x[0] != KEY_MOD), fails[0]))
        X.fail(first[0], first[1], all_failed_keys=sorted({k for k, _ in fails}))


def _diff(a, b, path=""):
    """short description of where two state trees differ"""
    if type(a) is not type(b):
        return f"{path or '.'}: {a!r} -> {b!r}"[:300]
    if isinstance(a, dict):
        for k in sorted(set(a) | set(b), key=str):
            if a.get(k, "<absent>") != b.get(k, "<absent>"):
                return _diff(a.get(k, "<absent>"), b.get(k, "<absent>"), f"{path}.{k}")
        return "equal"
    if isinstance(a, (list, tuple)) and len(a) == len(b):
        for i, (x, y) in enumerate(zip(a, b)):
            if x != y:
                return _diff(x, y, f"{path}[{i}]")
        return "equal"
    return f"{path or '.'}: {a!r} -> {b!r}"[:300]


def obligations(tier):
    n = 3 if tier == "quick" else 4
    mk = lambda kinds: (lambda X: h_history(X, n, kinds))  # noqa: E731
    npairs = lambda kinds: sum(len(FIELDS[k]) for k in kinds)  # noqa: E731
    reach = ["end", "backup-taken", "second-backup-ignored", "reverted", "copied", "copied-with-backup", "modified-true", "backup-but-unmodified"]
    return [
        Symx("history-http", mk(["http", "ws"]), bounds=f"HTTP flow (+ WebSocket variant): {npairs(['http', 'ws'])} field pairs x every history of {n} operations over "
             "{backup, revert, f1:=original, f1:=other, f2:=original, f2:=other, copy+edit copy, copy+edit original}; all checks after every operation (prefixes included)",
             encoded=ENCODED, must_reach=reach, parallel_depth=3),
        Symx("history-tcp-udp-dns", mk(["tcp", "udp", "dns"]), bounds=f"TCP, UDP and DNS flows: {npairs(['tcp', 'udp', 'dns'])} field pairs x every history of {n} operations (same menu)",
             encoded=ENCODED, must_reach=reach, parallel_depth=3),
    ]
