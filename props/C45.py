"""C45 — command-line arguments reach commands unchanged.

Obligations:
  escape-regex-vs-quote (smt)   `_StrType.escape_sequences` (lifted from the current source of types.py) against
                                the set of characters `command_lexer.quote` escapes (lifted from its source):
                                no string that quote() passes through verbatim may contain an escape sequence that
                                `_StrType.parse` will rewrite; every escape quote() emits is recognised by the regex;
                                the characters that make quote() add quotes are exactly the lexer's separators/quotes
  str-roundtrip          (chx)  `_StrType.parse(unquote(quote(s))) == s`, s symbolic, len <= 3 (CrossHair, traced)
  str-roundtrip-no-backslash / quote-one-token / unquote-quote (chx)   the backslash-free kernels
  execute-single-arg     (symx) every string over the alphabet, quoted with quote(), through the REAL
                                CommandManager.execute -> parse_partial (pyparsing) -> unquote -> call_strings ->
                                parsearg -> registered test command; the command must receive exactly the string
  execute-split-quoted   (symx) k <= 3 arguments quoted with quote(), joined by solver-chosen whitespace runs
  execute-split-raw      (symx) every raw command line of <= N characters over {a b SP TAB ' "} that is well-formed
                                (each token bare or fully quoted) is split exactly at unquoted whitespace
                                (oracle: independent 25-line reference splitter)

Failure classes seen on the unchanged tree (keys): C45/str-escape/backslash-sequence (parse() unescapes what quote()
never escaped) and C45/lexer/tab-expanded (pyparsing expands TABs to spaces before lexing, also inside quotes).
"""
import ast
import functools
import operator
import re

import z3

from vf import smt
from vf.ob import Chx, Smt, Symx

LEVEL = "model_checking"
ASSUMPTIONS = [
    "the receiving command parameter has type `str` (the type console.command itself declares); other parameter "
    "types have their own parsers and are not covered",
    "oracle for splitting = reference splitter in this file: whitespace outside quotes separates, a token is either a "
    "bare word without quote characters or one fully quoted string",
]
OUTSIDE = [
    "command lines in which a quoted string is adjacent to other text without whitespace (`a\"b c\"`), or with an "
    "unterminated quote: the lexer is deliberately partial there (test_command_lexer.py pins that behaviour)",
    "strings longer than the bound; parameter types other than str",
]
ENCODED = [
    "mitmproxy.command_lexer:quote", "mitmproxy.command_lexer:unquote",
    "mitmproxy.command:CommandManager.execute", "mitmproxy.command:CommandManager.call_strings",
    "mitmproxy.command:CommandManager.parse_partial", "mitmproxy.command:Command.prepare_args",
    "mitmproxy.command:parsearg", "mitmproxy.types:_StrType.parse", "mitmproxy.types:_StrType._unescape",
]

TYPES = "mitmproxy/types.py"
LEXER = "mitmproxy/command_lexer.py"
KEY_ESC = "C45/str-escape/backslash-sequence"
CHXFILE = "props/chx/c45_kernel.py"


# ------------------------------------------------------------------------------------------
# real execution path (also used by the SMT replay functions)

def _deliver(cmdline_tail, var=False):
    """run `t.one <tail>` / `t.var <tail>` through the real CommandManager; returns the received value(s)"""
    from mitmproxy import command

    got = []

    def one(arg: str) -> None:
        got.append(arg)

    def many(*args: str) -> None:
        got.append(tuple(args))

    command.CommandManager.parse_partial.cache_clear()
    m = command.CommandManager(None)
    m.add("t.one", one)
    m.add("t.var", many)
    try:
        m.execute(("t.var" if var else "t.one") + cmdline_tail)
    finally:
        command.CommandManager.parse_partial.cache_clear()
    if len(got) != 1:
        raise AssertionError(f"test command called {len(got)} times")
    return got[0]


_PY_ESCAPE_INTRO = "\\'\"abfnrtv01234567xNuU"


def _tab_expanded(exp, got):
    """oracle-side classification only: every TAB of the expected text arrived as a run of 1-8 spaces"""
    if "\t" not in exp or not isinstance(got, str) or "\t" in got:
        return False
    return re.fullmatch("".join(" {1,8}" if c == "\t" else re.escape(c) for c in exp), got) is not None


KEY_TAB = "C45/lexer/tab-expanded"


def _has_backslash_sequence(s):
    """oracle-side classification only (which key a failure gets): a backslash followed by a character that
    starts a Python string-literal escape"""
    return any(s[i] == "\\" and s[i + 1] in _PY_ESCAPE_INTRO for i in range(len(s) - 1))


# ------------------------------------------------------------------------------------------
# SMT

def _flags(srcs):
    return functools.reduce(operator.or_, [eval(f, {"re": re}) for f in srcs], 0)  # noqa: S307 - flag names from the source


def _quote_escapes():
    """{character: replacement} of every `.replace(<const>, <const>)` in command_lexer.quote (current source)"""
    fn = smt.find_function(LEXER, "quote")
    out = {}
    for n in ast.walk(fn):
        if isinstance(n, ast.Call) and isinstance(n.func, ast.Attribute) and n.func.attr == "replace" and len(n.args) == 2 \
                and all(isinstance(a, ast.Constant) and isinstance(a.value, str) for a in n.args):
            out[n.args[0].value] = n.args[1].value
    if not out:
        raise smt.AnchorNotFound("no .replace(const, const) in command_lexer.quote")
    return out


def _quote_trigger_chars():
    """the literal iterated in quote()'s `all(char not in val for char in <const>)`"""
    fn = smt.find_function(LEXER, "quote")
    for n in ast.walk(fn):
        if isinstance(n, ast.comprehension) and isinstance(n.iter, ast.Constant) and isinstance(n.iter.value, str):
            return n.iter.value
    raise smt.AnchorNotFound("separator literal in command_lexer.quote")


def _lexer_sets():
    v = smt.find_assign(LEXER, "expr")
    word = notin = None
    for n in ast.walk(v):
        if isinstance(n, ast.Call) and isinstance(n.func, ast.Attribute) and n.args and isinstance(n.args[0], ast.Constant):
            if n.func.attr == "Word":
                word = n.args[0].value
            elif n.func.attr == "CharsNotIn":
                notin = n.args[0].value
    if word is None or notin is None:
        raise smt.AnchorNotFound("pyparsing.Word / CharsNotIn literals in command_lexer.expr")
    return word, notin


def _build_smt():
    pat, fl = smt.source_regex(TYPES, "_StrType.escape_sequences")
    flags = _flags(fl)
    r_esc = smt.regex_to_z3(pat, flags)
    real = re.compile(pat, flags)
    esc = _quote_escapes()
    any_ = smt.any_string()
    s = z3.String("s")
    qs = []

    # (1) strings made only of characters quote() never escapes, containing something parse() rewrites
    if any(len(k) != 1 for k in esc):
        raise smt.AnchorNotFound("quote() escapes a multi-character string; obligation needs re-encoding")
    verbatim = smt.no_chars("".join(esc))

    def rp_unescaped(w):
        v = w["s"]
        from mitmproxy import command_lexer, exceptions

        try:
            got = _deliver(" " + command_lexer.quote(v))
        except exceptions.CommandError as e:
            return True, f"execute('t.one ' + quote({v!r})) raises CommandError({e}); the argument never reaches the command"
        return got != v, f"execute('t.one ' + quote({v!r})) delivers {got!r}"

    qs.append(smt.Query("no verbatim-quoted string contains an escape sequence parse() rewrites",
                        [z3.InRe(s, z3.Intersect(z3.Concat(any_, r_esc, any_), verbatim))], key=KEY_ESC, witness_vars=[s], replay=rp_unescaped))

    # (2) every escape quote() emits is one escape sequence of the regex and decodes to the escaped character
    for ch, rep in sorted(esc.items()):
        def rp_rep(w, ch=ch, rep=rep):
            import codecs

            m = real.fullmatch(rep)
            ok = m is not None and codecs.decode(rep, "unicode-escape") == ch
            return (not ok), f"quote() writes {rep!r} for {ch!r} but _StrType.parse does not turn it back"

        qs.append(smt.lang_subset(f"quote escape {rep!r} in escape_sequences", z3.Re(z3.StringVal(rep)), r_esc,
                                  key="C45/regex/quote-escape-not-recognised", replay=rp_rep))
        # the replacement must itself survive the quoting (contains no quote character / separator)
        trig = _quote_trigger_chars()
        qs.append(smt.lang_subset(f"quote escape {rep!r} free of separators", z3.Re(z3.StringVal(rep)), smt.no_chars(trig),
                                  key="C45/regex/quote-escape-contains-separator", replay=lambda w: (True, "replacement contains a separator")))

    # (3) finite-set agreement: quote() adds quotes exactly for the characters the lexer treats specially
    trig = _quote_trigger_chars()
    word, notin = _lexer_sets()
    c = z3.String("c")
    one = z3.Length(c) == 1
    in_trig, in_notin, in_word = (z3.InRe(c, smt.chars(x)) for x in (trig, notin, word))

    def rp_set(w):
        ch = w["c"]
        return ((ch in trig) != (ch in notin)) or ((ch in word) and ch not in notin), f"character {ch!r}: quote() trigger set {trig!r}, lexer CharsNotIn {notin!r}, Word {word!r}"

    qs.append(smt.Query("quote trigger set == lexer CharsNotIn set", [one, z3.Xor(in_trig, in_notin)], key="C45/lexer/special-set-mismatch", witness_vars=[c], replay=rp_set))
    qs.append(smt.Query("lexer whitespace set within CharsNotIn set", [one, in_word, z3.Not(in_notin)], key="C45/lexer/special-set-mismatch", witness_vars=[c], replay=rp_set))
    return qs


# ------------------------------------------------------------------------------------------
# Symx: real CommandManager.execute

ALPHA_Q = ["a", " ", "\t", "'", '"', "\\", "n", "t", "x", "2", "7", "#", "\u00e9", "\x0c", "\r"]  # incl. form feed and CR (white space other than space/tab/LF)
ALPHA_T = ALPHA_Q + ["\n", "u", "N", "{", "\U0001f600"]


def h_single(X, N, alpha):
    from mitmproxy import command_lexer, exceptions

    n = X.choose("len", N + 1)
    s = "".join(X.choose("ch", alpha) for _ in range(n))
    q = command_lexer.quote(s)
    X.note("s", s)
    esc = _has_backslash_sequence(s)
    key = KEY_ESC if esc else "C45/execute/argument-changed"
    try:
        got = _deliver(" " + q)
    except exceptions.CommandError as e:
        k = key if esc else "C45/execute/command-error"
        if not esc and s and s.isspace() and q == s:
            # an argument made only of white space that quote() leaves unquoted (form feed, vertical tab, ...) is taken for a separator
            k = "C45/execute/unquoted-whitespace-only-argument-lost"
        X.fail(k, f"execute('t.one ' + {q!r}) for the argument {s!r} raises CommandError: {e}", s=s)
    X.reach("delivered")
    if "\\" in s:
        X.reach("backslash")
    if '"' in s and "'" in s:
        X.reach("both-quotes")
    if _tab_expanded(s, got):
        key = KEY_TAB
    X.check(got == s, key, f"argument {s!r} (command line 't.one {q}') reaches the command as {got!r}", s=s, got=got)


ARGS_Q = ["a", "", "a b", "'", '"', "'\" ", "\t#\u00e9"]
ARGS_T = ARGS_Q + [" ", "\n", "a'b c"]
WS_Q = [" ", "\t", " \t "]
WS_T = WS_Q + ["\n", "\r\n"]


def h_split_quoted(X, K, args_menu, ws_menu):
    from mitmproxy import command_lexer

    k = X.choose("nargs", K + 1)
    args = []
    line = ""
    for i in range(k):
        a = X.choose("arg", args_menu)
        line += X.choose("ws", ws_menu) + command_lexer.quote(a)
        args.append(a)
    line += X.choose("trail", ["", " \t"])
    got = _deliver(line, var=True)
    X.reach("delivered")
    if k == 3:
        X.reach("three-args")
    key = "C45/split/quoted-args"
    if len(got) == len(args) and any(_tab_expanded(a, g) for a, g in zip(args, got)) and all(a == g or _tab_expanded(a, g) for a, g in zip(args, got)):
        key = KEY_TAB
    X.check(got == tuple(args), key, f"'t.var{line}' built from {args!r} delivers {got!r}", args=args, got=list(got))


_WS = " \t\r\n"


def ref_split(line):
    """Reference: split at unquoted whitespace.  None = outside the claim (unterminated quote, or a quote
    character adjacent to other text)."""
    out, i = [], 0
    while i < len(line):
        c = line[i]
        if c in _WS:
            i += 1
            continue
        if c in "'\"":
            j = line.find(c, i + 1)
            if j < 0:
                return None
            tok, i = line[i + 1:j], j + 1
            if i < len(line) and line[i] not in _WS:
                return None
        else:
            j = i
            while j < len(line) and line[j] not in _WS:
                if line[j] in "'\"":
                    return None
                j += 1
            tok, i = line[i:j], j
        out.append(tok)
    return out


def h_split_raw(X, N):
    n = X.choose("len", N + 1)
    tail = "".join(X.choose("ch", ["a", "b", " ", "\t", "'", '"']) for _ in range(n))
    exp = ref_split(tail)
    X.assume(exp is not None)
    got = _deliver(" " + tail, var=True)
    X.reach("delivered")
    if len(exp) >= 2:
        X.reach("two-args")
    if any(" " in t or "\t" in t for t in exp):
        X.reach("quoted-whitespace")
    key = "C45/split/raw-line"
    if len(got) == len(exp) and any(_tab_expanded(a, g) for a, g in zip(exp, got)) and all(a == g or _tab_expanded(a, g) for a, g in zip(exp, got)):
        key = KEY_TAB
    X.check(list(got) == exp, key, f"'t.var {tail}' delivers {got!r}, splitting at unquoted whitespace gives {exp!r}", line=tail)


def _chx_key(args, kwargs):
    s = args[0] if args else kwargs.get("s", "")
    return KEY_ESC if _has_backslash_sequence(s) else "C45/chx/str-roundtrip"


def obligations(tier):
    quick = tier == "quick"
    n1, alpha = (3, ALPHA_Q) if quick else (4, ALPHA_T)
    k = 3
    am, wm = (ARGS_Q, WS_Q) if quick else (ARGS_T, WS_T)
    n3 = 5 if quick else 7
    return [
        Smt("escape-regex-vs-quote", _build_smt, bounds="all strings (unbounded) over Unicode; escape_sequences regex, quote()'s replace() literals and "
            "the lexer's character sets lifted from the current source", encoded=["mitmproxy.types:_StrType.parse", "mitmproxy.command_lexer:quote"]),
        Chx("str-roundtrip", CHXFILE, "check_roundtrip", bounds="all strings of <= 3 code points (symbolic, traced through quote/unquote/_StrType.parse)",
            encoded=ENCODED[:2] + ENCODED[-2:], timeout=150, twin="twin_roundtrip", keyfn=_chx_key),
        Chx("str-roundtrip-no-backslash", CHXFILE, "check_roundtrip_no_backslash", bounds="all strings of <= 3 code points without a backslash",
            encoded=ENCODED[:2] + ENCODED[-2:], timeout=150, twin="twin_roundtrip_no_backslash"),
        Chx("quote-one-token", CHXFILE, "check_quote_is_one_token", bounds="all strings of <= 3 code points: quote(s) is a bare word or one closed quoted string",
            encoded=ENCODED[:1], timeout=150, twin="twin_quote_is_one_token"),
        Chx("unquote-quote", CHXFILE, "check_unquote_quote", bounds="all strings of <= 3 code points not containing both quote characters",
            encoded=ENCODED[:2], timeout=150, twin="twin_unquote_quote"),
        Symx("execute-single-arg", lambda X: h_single(X, n1, alpha), bounds=f"every string of <= {n1} characters over the {len(alpha)}-symbol alphabet {alpha!r}, "
             "quoted with quote(), through the real CommandManager.execute", encoded=ENCODED, must_reach=["delivered", "backslash", "both-quotes"], parallel_depth=2),
        Symx("execute-split-quoted", lambda X: h_split_quoted(X, k, am, wm), bounds=f"<= {k} arguments from a {len(am)}-entry menu {am!r} x whitespace runs {wm!r} x trailing whitespace",
             encoded=ENCODED, must_reach=["delivered", "three-args"], parallel_depth=3),
        Symx("execute-split-raw", lambda X: h_split_raw(X, n3), bounds=f"every well-formed raw argument text of <= {n3} characters over {{a, b, SP, TAB, ', \"}}",
             encoded=ENCODED[2:5], must_reach=["delivered", "two-args", "quoted-whitespace"], parallel_depth=3),
    ]
