"""C13 — ClientHello parsing is total and independent of segmentation.

mitmproxy's own record walker (`handshake_record_contents`, `get_client_hello`, DTLS twins), its
`parse_client_hello` and the generated kaitai parser behind `mitmproxy.tls.ClientHello` are executed
on buffers whose bytes are symbolic 8-bit values (vf.symbytes.SymBytes), so z3 decides every branch a
length byte / type byte / version byte can take.  Oracle: an independent RFC reference
(vf/refs/tlsref.py: encoder, strict parser, record-layer reassembly).

Obligations
  record-magic          starts_like_tls_record / starts_like_dtls_record on <= 4 fully symbolic bytes vs the RFC
                        record-version tables (total; accepts every valid version; no false accept)
  header-total-tls/dtls get_client_hello / handshake_record_contents on ALL byte strings of length <= N
  reassembly            hello length field fully symbolic (24 bit), cut into <= r records, every TCP prefix
  layer-segmentation    real ClientTLSLayer fed segment by segment == all at once == reference
  hello-bytes-tls/dtls  parse_client_hello on ALL hello bodies of length <= 34+R vs the strict reference parser
  differential          hellos built by the reference encoder from solver-chosen features, symbolic suites /
                        extension types / ALPN bytes: reported values == encoded values
  mutations             truncation at every offset, every length field replaced by any other value
  dtls-fragmentation    RFC 6347 §4.2.3 fragmented DTLS ClientHello == unfragmented one
"""
import kaitaistruct
from kaitaistruct import KaitaiStream

from mitmproxy import tls as mtls
from mitmproxy.contrib.kaitaistruct import dtls_client_hello as KD
from mitmproxy.contrib.kaitaistruct import tls_client_hello as K
from mitmproxy.net import tls as net_tls
from mitmproxy.proxy import commands
from mitmproxy.proxy.layers import tls as ltls

from vf import sansio, symbytes, symx
from vf.ob import Concrete, Symx
from vf.refs import tlsref as T
from vf.symbytes import SymBytes

LEVEL = "model_checking"
# z3's per-query timeout is wall-clock; on a heavily shared machine a sub-second query can exceed the engine's 20 s default and turn a
# path "inconclusive".  Raise it for this property's processes only (module global read at the start of every path; engine file untouched).
symx.QUERY_TIMEOUT_MS = max(symx.QUERY_TIMEOUT_MS, 180000)
ASSUMPTIONS = [
    "C helpers replaced inside the harness process by validated models: struct (vf.symbytes), io.BytesIO -> list-backed "
    "reader SymIO, range() -> lazy range over a symbolic bound, KaitaiStream.read_bytes/read_u1/read_u2be/read_u4be -> "
    "symbolic-aware subclass (same contract: n bytes or EndOfStreamError); validated against the real ones by obligation shim-validation",
    "oracle = vf/refs/tlsref.py (RFC 8446 §4.1.2/§5.1, RFC 6066 §3, RFC 7301 §3.1, RFC 6347 §4.1-4.2)",
    "SNI host names whose bytes are symbolic are evaluated only up to length 1 and only in hellos the reference accepts (the idna "
    "codec realises bytes: 256 forks per byte); longer names are covered by the concrete menu of obligation differential",
    "where the reference parser rejects a (malformed) hello, mitmproxy may accept it leniently or raise ValueError; only "
    "totality is demanded there (weaker reading of the property)",
]
OUTSIDE = [
    "arbitrary byte strings longer than the stated bounds (explored through the structured mutations only)",
    "QUIC ClientHello (quic layer), SSLv2-compatible hellos",
    "is_valid_host on arbitrary symbolic host names (C33)",
    "OpenSSL's own parsing of the same bytes",
]
TRUSTED = ["vf/refs/tlsref.py as transcribed from the RFCs", "kaitaistruct 0.11 runtime (stream contract)"]
ENCODED = [
    "mitmproxy.net.tls:starts_like_tls_record", "mitmproxy.net.tls:starts_like_dtls_record",
    "mitmproxy.proxy.layers.tls:handshake_record_contents", "mitmproxy.proxy.layers.tls:get_client_hello",
    "mitmproxy.proxy.layers.tls:parse_client_hello", "mitmproxy.proxy.layers.tls:dtls_handshake_record_contents",
    "mitmproxy.proxy.layers.tls:get_dtls_client_hello", "mitmproxy.proxy.layers.tls:dtls_parse_client_hello",
    "mitmproxy.proxy.layers.tls:ClientTLSLayer.receive_handshake_data",
    "mitmproxy.tls:ClientHello.__init__", "mitmproxy.tls:ClientHello.sni", "mitmproxy.tls:ClientHello.alpn_protocols",
    "mitmproxy.tls:ClientHello.cipher_suites", "mitmproxy.tls:ClientHello.extensions",
    "mitmproxy.contrib.kaitaistruct.tls_client_hello:TlsClientHello._read",
    "mitmproxy.contrib.kaitaistruct.dtls_client_hello:DtlsClientHello._read",
]
STUBS = ["struct -> vf.symbytes.struct_module (mitmproxy.proxy.layers.tls)", "io.BytesIO -> SymIO (mitmproxy.tls, kaitai modules)",
         "KaitaiStream -> SymStream", "range -> sym_range (kaitai modules)"]

# ------------------------------------------------------------------------------------------
# models of the C boundaries


class SymIO:
    """list-backed stand-in for io.BytesIO (read/seek/tell only, as KaitaiStream uses it)"""

    def __init__(self, data=b""):
        self.items = list(data.items) if isinstance(data, SymBytes) else list(bytes(data))
        self.p = 0

    def tell(self):
        return self.p

    def seek(self, n, whence=0):
        if whence == 0:
            self.p = n
        elif whence == 1:
            self.p += n
        else:
            self.p = len(self.items) + n
        return self.p

    def read(self, n=-1):
        if n is None or n < 0:
            n = len(self.items) - self.p
        chunk = self.items[self.p : self.p + n]
        self.p += len(chunk)
        sb = SymBytes(chunk)
        c = sb.concrete()
        return c if c is not None else sb

    def seekable(self):
        return True

    def close(self):
        pass


class SymStream(KaitaiStream):
    """KaitaiStream whose integer readers do big-endian arithmetic instead of struct, and whose read_bytes
    decides 'enough bytes left?' with the solver before realising a symbolic length"""

    def read_bytes(self, n):
        if type(n) is symx.SymInt:
            avail = self.size() - self.pos()
            if bool(n > avail):
                raise kaitaistruct.EndOfStreamError("requested <sym> bytes, but only %d bytes available" % avail, n, avail)
            n = symx.concretize(n)
        return KaitaiStream.read_bytes(self, n)

    def read_u1(self):
        return symbytes.be_int(symbytes._items(self.read_bytes(1)))

    def read_u2be(self):
        return symbytes.be_int(symbytes._items(self.read_bytes(2)))

    def read_u4be(self):
        return symbytes.be_int(symbytes._items(self.read_bytes(4)))


def sym_range(*a):
    """range() whose bound may be symbolic: iteration forks on `i < n` instead of realising n"""
    if not any(type(x) is symx.SymInt for x in a):
        return range(*a)
    if len(a) != 1:
        raise symx.Unsupported("range with symbolic start/step")

    def gen():
        i = 0
        while bool(i < a[0]):
            yield i
            i += 1

    return gen()


class _io_shim:
    BytesIO = SymIO


_SAVED = None


def _install():
    global _SAVED
    if _SAVED is not None:
        return
    _SAVED = (ltls.struct, mtls.io, mtls.KaitaiStream, [(m, m.BytesIO, m.KaitaiStream) for m in (K, KD)])
    ltls.struct = symbytes.struct_module
    mtls.io = _io_shim
    mtls.KaitaiStream = SymStream
    for m in (K, KD):
        m.BytesIO = SymIO
        m.KaitaiStream = SymStream
        m.range = sym_range


def _uninstall():
    global _SAVED
    if _SAVED is None:
        return
    ltls.struct, mtls.io, mtls.KaitaiStream, mods = _SAVED
    for m, b, k in mods:
        m.BytesIO, m.KaitaiStream = b, k
        m.__dict__.pop("range", None)
    _SAVED = None


def shimmed(fn):
    """run the harness with the models installed for symbolic runs; concrete replays use the real C helpers"""

    def run(X):
        if not X.symbolic:
            return fn(X)
        _install()
        try:
            return fn(X)
        finally:
            _uninstall()

    run.__name__ = fn.__name__
    return run


def as_buf(X, items):
    """what mitmproxy receives: real bytes in a concrete replay, SymBytes (or bytes if nothing symbolic) otherwise"""
    items = list(items)
    if T.is_concrete(items):
        return bytes(items)
    return SymBytes(items)


def items_of(x):
    if isinstance(x, SymBytes):
        return list(x.items)
    return list(bytes(x)) if not isinstance(x, list) else x


def eq_items(a, b):
    a, b = items_of(a), items_of(b)
    return len(a) == len(b) and all(bool(x == y) for x, y in zip(a, b))


def show(items):
    items = items_of(items)
    return bytes(items).hex() if T.is_concrete(items) else f"<{len(items)} symbolic bytes>"


# ------------------------------------------------------------------------------------------
# running mitmproxy's parser and judging its outcome


def run_parse(X, data, dtls, kp):
    """-> ("none"|"ve"|"ok", ClientHello|None); anything else escaping is a violation"""
    fn = ltls.dtls_parse_client_hello if dtls else ltls.parse_client_hello
    try:
        ch = fn(data)
    except ValueError:
        return "ve", None
    except (symx.Violation, symx.Unsupported):
        raise
    except Exception as e:  # noqa
        X.fail(f"{kp}/raises-{type(e).__name__}", f"parse_client_hello raised {type(e).__name__}: {e} on {show(data)}")
    if ch is None:
        return "none", None
    return "ok", ch


def _normalise_sni_hosts(ch, realise=True):
    """Host names read from symbolic bytes are SymBytes; `re` needs real bytes.  Names of length <= 1 are
    realised (forks over their byte values: the objects keep the same value, only the representation
    changes); returns False if a longer symbolic name is present (then .sni is not evaluated)."""
    ext = getattr(ch._client_hello, "extensions", None)
    if not ext:
        return True
    for e in ext.extensions:
        names = getattr(e.body, "server_names", None)
        if names is None:
            continue
        for n in names:
            if isinstance(n.host_name, SymBytes):
                if len(n.host_name) > 1 or (not realise and len(n.host_name) > 0):
                    return False
                n.host_name = n.host_name.realize()
    return True


def accessors(X, ch, kp, realise=True):
    """totality of the four reported views (realise=False: .sni is skipped if any host name has symbolic bytes)"""
    out = {}
    for name in ("cipher_suites", "alpn_protocols", "extensions", "sni"):
        if name == "sni" and not _normalise_sni_hosts(ch, realise):
            out[name] = Ellipsis
            continue
        try:
            out[name] = getattr(ch, name)
        except (symx.Violation, symx.Unsupported):
            raise
        except Exception as e:  # noqa
            X.fail(f"{kp}/accessor-{name}-raises-{type(e).__name__}", f"ClientHello.{name} raised {type(e).__name__}: {e}")
    return out


_LDH = set(b"abcdefghijklmnopqrstuvwxyzABCDEFGHIJKLMNOPQRSTUVWXYZ0123456789-")
KNOWN_VALID_ALABELS = {b"xn--mnchen-3ya.de"}


def plain_hostname(h: bytes) -> bool:
    """RFC 6066 §3 HostName that every parser must report: LDH labels (RFC 1123), no trailing dot, no
    A-labels other than the known-valid ones (an invalid punycode label may legitimately be refused)"""
    if h in KNOWN_VALID_ALABELS:
        return True
    if not h or len(h) > 253:
        return False
    for lab in h.split(b"."):
        if not 1 <= len(lab) <= 63 or any(c not in _LDH for c in lab) or lab[:1] == b"-" or lab[-1:] == b"-":
            return False
        if lab[:4].lower() == b"xn--":
            return False
    # all-numeric last label = IPv4 literal, not permitted in HostName
    return not h.split(b".")[-1].isdigit()


def compare(X, got, ref, kp):
    """values mitmproxy reports (got = accessors()) vs what the reference parser read"""
    cs = list(got["cipher_suites"])
    X.check(len(cs) == len(ref.cipher_suites) and all(bool(a == b) for a, b in zip(cs, ref.cipher_suites)),
            f"{kp}/cipher-suites", f"cipher_suites {cs!r} != reference {ref.cipher_suites!r}")
    gext, rext = got["extensions"], ref.extensions or []
    ok = len(gext) == len(rext) and all(bool(gt == rt) and eq_items(gb, rb) for (gt, gb), (rt, rb) in zip(gext, rext))
    X.check(ok, f"{kp}/extensions", f"extensions {[(t, show(b)) for t, b in gext]} != reference {[(t, show(b)) for t, b in rext]}")
    galpn, ralpn = got["alpn_protocols"], ref.alpn or []
    ok = len(galpn) == len(ralpn) and all(eq_items(a, b) for a, b in zip(galpn, ralpn))
    X.check(ok, f"{kp}/alpn", f"alpn_protocols {[show(a) for a in galpn]} != reference {[show(a) for a in ralpn]}")
    sni = got["sni"]
    if sni is Ellipsis:
        X.reach("sni-skipped-symbolic-host")
        return
    if ref.sni is None:
        X.check(sni is None, f"{kp}/sni-invented", f"sni {sni!r} reported but no server_name extension present")
        return
    hosts = [h for t, h in ref.sni if bool(t == 0)]
    if not hosts:
        X.check(sni is None, f"{kp}/sni-invented", f"sni {sni!r} reported but no host_name entry present")
        return
    host = bytes(symx.concretize(x) for x in hosts[0])
    try:
        text = host.decode("ascii")
    except UnicodeDecodeError:
        text = None
    X.check(sni is None or sni == text, f"{kp}/sni-differs", f"sni {sni!r} but the hello carries host_name {host!r}")
    if len(ref.sni) == 1 and plain_hostname(host):
        X.reach("sni-must-equal")
        X.check(sni == text, f"{kp}/sni-dropped", f"sni {sni!r} but the hello carries the plain host_name {host!r}")


def frame(body, dtls, cuts=(), version=None):
    """record stream carrying the hello body: TLS (cut into records at `cuts`) or one DTLS record"""
    hs = T.handshake(body, dtls=dtls)
    if dtls:
        return T.record(hs, dtls=True, version=version)
    return T.split_records(hs, cuts, version=version)


# ------------------------------------------------------------------------------------------
# obligation: record magic


@shimmed
def h_magic(X):
    n = X.choose("n", 5)
    d = X.bytes("d", n)
    for dtls, fn, ref, name in ((False, net_tls.starts_like_tls_record, T.tls_record_magic, "tls"),
                                (True, net_tls.starts_like_dtls_record, T.dtls_record_magic, "dtls")):
        try:
            got = bool(fn(d))
        except (symx.Violation, symx.Unsupported):
            raise
        except Exception as e:  # noqa
            X.fail(f"C13/magic/{name}/raises-{type(e).__name__}", f"{fn.__name__} raised {e!r} on {n} bytes")
        if n < 3:
            X.check(not got, f"C13/magic/{name}/short-accepted", f"{n} bytes accepted as a record start")
            continue
        valid = bool(ref(d))
        X.reach(f"{name}-{'valid' if valid else 'invalid'}")
        if valid and not got:
            v = (symx.concretize(d[1]), symx.concretize(d[2]))
            X.fail(f"C13/{name}/record-version-{v[0]:02x}{v[1]:02x}-rejected",
                   f"{fn.__name__} rejects a handshake record of version {{{v[0]},{v[1]}}} "
                   f"({'DTLS 1.0, which OpenSSL and most DTLS clients put on the initial ClientHello record' if v == (254, 255) else 'valid per RFC'})")
        if got:
            # no false accept outside the protocol's version space: handshake content type and major version
            ok = bool(d[0] == 22) and bool(d[1] == (0xFE if dtls else 3))
            X.check(ok, f"C13/magic/{name}/false-accept", "accepted bytes that are not a handshake record of this protocol")
            if not dtls:
                X.check(valid, "C13/magic/tls/version-false-accept", "TLS record version outside {3,0}..{3,3} accepted")


# ------------------------------------------------------------------------------------------
# obligation: header totality over all bytes


def _plausible_prefix(part, dtls):
    """could these (fewer than header-size) bytes still start a handshake record?"""
    want = [22, 0xFE if dtls else 3]
    return all(bool(part[i] == want[i]) for i in range(min(len(part), 2)))


def h_header_total(X, dtls, nmax):
    n = X.choose("n", nmax + 1)
    d = X.bytes("d", n)
    data = as_buf(X, d)
    get = ltls.get_dtls_client_hello if dtls else ltls.get_client_hello
    kp = "C13/header/" + ("dtls" if dtls else "tls")
    try:
        got = get(data)
        kind = "none" if got is None else "ok"
    except ValueError:
        kind, got = "ve", None
    except (symx.Violation, symx.Unsupported):
        raise
    except Exception as e:  # noqa
        X.fail(f"{kp}/raises-{type(e).__name__}", f"get_client_hello raised {type(e).__name__}: {e}")
    # the generator itself: every element is a record body; it either ends or raises ValueError
    gen = ltls.dtls_handshake_record_contents if dtls else ltls.handshake_record_contents
    try:
        for body in gen(data):
            X.check(len(body) > 0, f"{kp}/empty-record-yielded", "handshake_record_contents yielded an empty record")
    except ValueError:
        pass
    except (symx.Violation, symx.Unsupported):
        raise
    except Exception as e:  # noqa
        X.fail(f"{kp}/generator-raises-{type(e).__name__}", f"handshake_record_contents raised {type(e).__name__}: {e}")
    X.reach(kind)
    # reference walker (RFC record versions)
    items = list(d)
    trace = []
    partial = None
    try:
        ref = T.dtls_first_message(items, trace=trace) if dtls else T.tls_first_message(items, trace=trace)
        rkind = "ok"
    except T.Incomplete as e:
        rkind, ref, partial = "incomplete", None, e.partial
    except T.Reject:
        rkind, ref = "reject", None
    except T.Fragmented:
        rkind, ref = "fragmented", None
    if dtls and rkind == "ok" and len(ref) < 13:
        rkind = "reject"  # a 12-byte header without body is no ClientHello
    if dtls and kind == "ve" and rkind in ("ok", "incomplete") and any(bool(items[o + 2] == 0xFF) for o in trace):
        # record version {254,255} (DTLS 1.0): whether it must be accepted is decided by obligation record-magic alone
        X.reach("dtls10-record-version-not-judged-here")
        return
    if rkind == "ok":
        X.reach("ref-complete")
        X.check(kind == "ok" and eq_items(got, ref), f"{kp}/complete-not-returned", f"complete first message not returned: {kind}")
    elif rkind == "incomplete":
        if kind == "ve":
            # early rejection is only legitimate if the unfinished header can no longer become a handshake record
            X.check(partial is not None and not _plausible_prefix(partial, dtls), f"{kp}/valid-prefix-rejected",
                    "ValueError for a prefix that is a valid start of a handshake record stream (needs more bytes)")
        else:
            X.check(kind == "none", f"{kp}/incomplete-accepted", f"{kind}: returned a hello from an incomplete record stream")
    if kind == "ok" and not dtls:
        X.check(rkind == "ok", f"{kp}/false-accept", f"hello returned but the reference says {rkind}")


# ------------------------------------------------------------------------------------------
# obligation: record reassembly, symbolic hello length


def h_reassembly(X, smax, rmax):
    r = X.choose("records", list(range(1, rmax + 1)))
    sizes = []
    left = smax
    for i in range(r):
        s = X.choose(f"size{i}", list(range(1, left - (r - 1 - i) + 1)))
        sizes.append(s)
        left -= s
    total = sum(sizes)
    stream = X.bytes("hs", total)  # handshake byte stream: type, 24-bit length (symbolic), body marker bytes
    sl = list(stream)
    minor = X.int("minor", 0, 3)
    trailing = X.choose("trailing", ["none", "ccs-record"])
    data_items, ends = [], []
    pos = 0
    for s in sizes:
        data_items += T.record(sl[pos : pos + s], version=(3, minor))
        pos += s
        ends.append(len(data_items))
    if trailing == "ccs-record":
        data_items += [20, 3, 3, 0, 1, 1]
    t = X.choose("prefix", len(data_items) + 1)
    data = as_buf(X, data_items[:t])
    try:
        got = ltls.get_client_hello(data)
        kind = "none" if got is None else "ok"
    except ValueError:
        kind, got = "ve", None
    except (symx.Violation, symx.Unsupported):
        raise
    except Exception as e:  # noqa
        X.fail(f"C13/reassembly/raises-{type(e).__name__}", f"get_client_hello raised {type(e).__name__}: {e}")
    # reference, declaratively: P = handshake bytes contained in the leading complete records
    k = 0
    while k < r and ends[k] <= t:
        k += 1
    P = sum(sizes[:k])
    H = T.be(sl[1:4]) if total >= 4 else None
    complete = P >= 4 and bool(H + 4 <= P)
    if complete:
        X.reach("complete")
        if k < r:
            X.reach("complete-before-last-record")
        h = symx.concretize(H)
        X.check(kind == "ok" and eq_items(got, sl[: h + 4]), "C13/reassembly/complete-not-returned",
                f"records {sizes}, prefix {t}: {P} handshake bytes in complete records, hello needs {h + 4}, got {kind}")
    else:
        beyond = k == r and trailing != "none" and t >= ends[-1] + 5
        if beyond:
            # the declared hello is longer than all handshake records and a non-handshake record follows: invalid input
            X.reach("non-handshake-record")
            X.check(kind in ("ve", "none"), "C13/reassembly/non-handshake-accepted", f"{kind} although a CCS record interrupts the hello")
        else:
            X.reach("incomplete")
            X.check(kind == "none", "C13/reassembly/incomplete-not-none",
                    f"records {sizes}, prefix {t}: only {P} handshake bytes complete, result {kind}")


def h_reassembly_dtls(X, bmax):
    """DTLS: hello in one record (unfragmented), optional second record, every datagram prefix"""
    b = X.choose("body", list(range(1, bmax + 1)))
    body = list(X.bytes("b", b))
    minor = X.choose("minor", [0xFD, 0xFE])
    flen = X.int("fraglen", 0, (1 << 24) - 1)
    hs = [1] + T.u(3, flen) + T.u(2, 0) + T.u(3, 0) + T.u(3, flen) + body
    second = X.boolean("second_record")
    items = T.record(hs, dtls=True, version=(0xFE, minor))
    end1 = len(items)
    if second:
        items += T.record([16, 0, 0, 1, 0, 1, 0, 0, 0, 0, 0, 1, 7], dtls=True, version=(0xFE, minor), seq=1)
    t = X.choose("prefix", len(items) + 1)
    data = as_buf(X, items[:t])
    try:
        got = ltls.get_dtls_client_hello(data)
        kind = "none" if got is None else "ok"
    except ValueError:
        kind, got = "ve", None
    except (symx.Violation, symx.Unsupported):
        raise
    except Exception as e:  # noqa
        X.fail(f"C13/reassembly-dtls/raises-{type(e).__name__}", f"get_dtls_client_hello raised {type(e).__name__}: {e}")
    if t >= end1 and bool(flen <= b):
        f = symx.concretize(flen)
        X.reach("complete")
        X.check(kind == "ok" and eq_items(got, hs[: 12 + f]), "C13/reassembly-dtls/complete-not-returned",
                f"body {b}, fragment_length {f}, prefix {t}: {kind}")
    elif t < end1:
        X.reach("incomplete")
        X.check(kind == "none", "C13/reassembly-dtls/incomplete-not-none", f"prefix {t} of a {end1}-byte record: {kind}")
    else:
        # fragment_length exceeds the record: malformed; mitmproxy may wait for more records or reject
        X.reach("overlong")
        X.check(kind in ("none", "ve") or second, "C13/reassembly-dtls/overlong-accepted", f"{kind}")


# ------------------------------------------------------------------------------------------
# obligation: the real ClientTLSLayer, segment by segment

_OPTS = None


def _opts():
    global _OPTS
    if _OPTS is None:
        _OPTS = sansio.make_options()
    return _OPTS


def _feed_layer(segments, dtls):
    """returns list of observations after each segment: ('wait'|'hello'|'error', hook data)"""
    ctx = sansio.make_context(_opts(), transport="udp" if dtls else "tcp")
    server_layer = ltls.ServerTLSLayer(ctx)
    client_layer = ltls.ClientTLSLayer(ctx)
    server_layer.child_layer = client_layer
    d = sansio.Driver(server_layer, ctx)
    d.on_hook = lambda hook: not isinstance(hook, ltls.TlsClienthelloHook)  # the addon holds tls_clienthello
    d.start()
    obs = []
    for seg in segments:
        d.data(ctx.client, seg)
        hellos = d.hooks_named("tls_clienthello")
        failed = d.hooks_named("tls_failed_client")
        if len(hellos) > 1:
            obs.append(("duplicate", hellos))
        elif hellos:
            obs.append(("hello", hellos[0].client_hello, ctx.client.sni, list(ctx.client.alpn_offers)))
        elif failed or any(c is ctx.client for c, _ in d.closed):
            obs.append(("error", None))
        else:
            obs.append(("wait", None))
    return obs


_LAYER_HELLO = dict(suites=(0x1301, 0xC02F), extensions=[("sni", [(0, list(b"a.bc"))]), ("alpn", [list(b"h2")])])


def h_layer(X, max_cuts, dense, quick=True):
    dtls = X.boolean("dtls")
    body, _ = T.hello_body(dtls=dtls, **_LAYER_HELLO)
    hs = T.handshake(body, dtls=dtls)
    L = len(hs)
    if dtls:
        stream = T.record(hs, dtls=True)
        second = X.choose("second_record", ["none", "handshake", "change-cipher-spec"])
        if second == "handshake":
            stream += T.record([16, 0, 0, 1, 0, 1, 0, 0, 0, 0, 0, 1, 7], dtls=True, seq=1)
        elif second == "change-cipher-spec":
            # a complete record of another content type right behind the hello (same datagram / segment)
            stream += T.record([1], dtls=True, seq=1, ctype=20)
            X.reach("non-handshake-record-follows")
    else:
        menu = [1, 4, 5, L - 1] if quick else [1, 3, 4, 5, 40, L - 1]
        nrc = X.choose("record_cuts", 3)
        rc = []
        lo = 0
        for i in range(nrc):
            X.assume(lo < len(menu))
            j = X.choose(f"rc{i}", list(range(lo, len(menu))))
            rc.append(menu[j])
            lo = j + 1
        trailing = X.choose("trailing", ["none", "next-record", "next-ccs-record"] if quick else ["none", "same-record", "next-record", "next-ccs-record"])
        hs2 = hs + ([2, 0, 0, 1] if trailing == "same-record" else [])
        stream = T.split_records(hs2, rc)
        if trailing == "next-record":
            stream += T.record([2, 0, 0, 1, 9])
        elif trailing == "next-ccs-record":
            # TLS 1.3 middlebox compatibility: ChangeCipherSpec (and early data) directly behind the ClientHello
            stream += T.record([1], ctype=20) + T.record([0x17, 0x2A], ctype=23)
            X.reach("non-handshake-record-follows")
    stream = bytes(stream)
    n = len(stream)
    ncuts = X.choose("segments", max_cuts + 1)
    cuts = []
    lo = 1
    for i in range(ncuts):
        X.assume(lo < n)
        if dense or i == 0:
            c = X.choose(f"cut{i}", list(range(lo, n)))
        else:
            pts = sorted({p for p in (lo, lo + 1, lo + 4, lo + 5, n - 1) if lo <= p < n})
            c = X.choose(f"cut{i}", pts)
        cuts.append(c)
        lo = c + 1
    edges = [0] + cuts + [n]
    segs = [stream[a:b] for a, b in zip(edges, edges[1:])]
    obs = _feed_layer(segs, dtls)
    whole = _feed_layer([stream], dtls)[-1]
    # reference on every prefix
    ref_hello = T.parse_hello(body, dtls=dtls)
    fired_at = None
    for i, e in enumerate(edges[1:]):
        try:
            msg = (T.dtls_first_message if dtls else T.tls_first_message)(list(stream[:e]))
            exp = "hello"
        except T.Incomplete:
            exp = "wait"
        o = obs[i]
        X.check(o[0] != "duplicate", "C13/layer/hook-twice", f"tls_clienthello fired twice (segments {cuts})")
        X.check(o[0] == exp, "C13/layer/segment-dependent", f"after {e} of {n} bytes (cuts {cuts}, records {len(stream)}): layer says {o[0]}, reference {exp}")
        if exp == "hello" and fired_at is None:
            fired_at = i
    X.check(whole[0] == "hello" and obs[-1][0] == "hello", "C13/layer/not-parsed", f"whole={whole[0]} segmented={obs[-1][0]}")
    X.reach("hello")
    if fired_at is not None and fired_at > 0:
        X.reach("completed-by-later-segment")
    for tag, o in (("segmented", obs[-1]), ("whole", whole)):
        ch = o[1]
        got = accessors(X, ch, "C13/layer")
        compare(X, got, ref_hello, f"C13/layer/{tag}")
        X.check(o[2] == got["sni"] and o[3] == got["alpn_protocols"], "C13/layer/conn-attrs",
                f"client.sni/alpn_offers {o[2]!r}/{o[3]!r} differ from the parsed hello")
    a, b = obs[-1][1], whole[1]
    X.check(a.cipher_suites == b.cipher_suites and a.extensions == b.extensions and a.sni == b.sni and a.alpn_protocols == b.alpn_protocols,
            "C13/layer/segmented-differs-from-whole", "segment-by-segment result differs from all-at-once result")


# ------------------------------------------------------------------------------------------
# obligation: all hello bodies up to a length


def h_hello_bytes(X, dtls, rmax, ext_only=False):
    """ext_only=False: every byte of the body symbolic.  ext_only=True: version/random symbolic, empty session id
    (and cookie), one symbolic suite, null compression; everything after (the extensions area) fully symbolic."""
    base = 35 if dtls else 34
    if ext_only:
        n = X.choose("ext_area_len", rmax + 1)
        head, _ = T.hello_body(dtls=dtls, version=list(X.bytes("version", 2)), random=list(X.bytes("random", 32)),
                               suites=[X.bv("suite", 16)], extensions=None)
        body = head + list(X.bytes("x", n))
        kp = "C13/extension-bytes/" + ("dtls" if dtls else "tls")
    else:
        n = X.choose("len", list(range(base - 2, base + rmax + 1)))  # base-2, base-1: too short for the fixed part
        body = list(X.bytes("b", n))
        kp = "C13/hello-bytes/" + ("dtls" if dtls else "tls")
    data = as_buf(X, frame(body, dtls))
    kind, ch = run_parse(X, data, dtls, kp)
    X.check(kind != "none", f"{kp}/complete-record-none", "complete record stream but parse_client_hello returned None")
    try:
        ref = T.parse_hello(body, dtls=dtls)
    except T.Reject:
        ref = None
    if kind == "ok":
        X.reach("accepted")
        got = accessors(X, ch, kp, realise=ref is not None)
    if ref is not None:
        X.reach("ref-accepts")
        X.check(kind == "ok", f"{kp}/valid-hello-rejected", f"well-formed {n}-byte hello rejected with ValueError")
        compare(X, got, ref, kp)
        if ref.extensions is not None:
            X.reach("with-extensions")
        if ref.sni is not None:
            X.reach("with-sni")
        if ref.alpn is not None:
            X.reach("with-alpn")
    elif kind == "ok":
        X.reach("lenient-accept")
    else:
        X.reach("both-reject")


# ------------------------------------------------------------------------------------------
# obligation: differential on encoder-built hellos

SNI_MENU = ["none", "host", "a-label", "mixed-case", "underscore", "non-ascii", "space", "ipv4-literal", "trailing-dot", "too-long",
            "empty", "two-names", "symbolic-type"]
_SNI_HOSTS = {
    "host": b"example.com", "a-label": b"xn--mnchen-3ya.de", "mixed-case": b"WWW.Example.COM", "underscore": b"_dmarc.example.com",
    "non-ascii": b"ex\xffmple.com", "space": b"bad host", "ipv4-literal": b"192.0.2.1", "trailing-dot": b"example.com.",
    "too-long": b".".join([b"a" * 63] * 4) + b"b", "empty": b"",
}
_ALPN_LENS = [2, 8, 1]


def _features(X, *, sni_menu, alpn_max, suites_menu, unknown_menu, sid_menu, collide=False):
    dtls = X.boolean("dtls")
    sni = X.choose("sni", sni_menu)
    exts = []
    if sni == "two-names":
        exts.append(("sni", [(1, list(b"x")), (0, list(b"example.com"))]))
    elif sni == "symbolic-type":
        exts.append(("sni", [(X.bv("name_type", 8), list(b"example.com"))]))
    elif sni != "none":
        exts.append(("sni", [(0, list(_SNI_HOSTS[sni]))]))
    n_alpn = X.choose("n_alpn", alpn_max + 1)
    if n_alpn:
        exts.append(("alpn", [list(X.bytes(f"alpn{i}", _ALPN_LENS[i])) for i in range(n_alpn)]))
    unk = X.choose("unknown_ext", unknown_menu)
    if unk != "none":
        where, ln = unk
        et = X.bv("ext_type", 16)
        if not collide:
            X.assume(et != 0)
            X.assume(et != 16)
        e = (et, list(X.bytes("ext_body", ln)))
        if where == "first":
            exts.insert(0, e)
        else:
            exts.append(e)
    if not exts:
        extensions = X.choose("ext_block", [None, []])
    else:
        extensions = exts
    k = X.choose("suites", suites_menu)
    suites = [X.bv(f"suite{i}", 16) for i in range(k)]
    sid = list(X.bytes("sid", X.choose("sid_len", sid_menu)))
    cookie = list(X.bytes("cookie", 2)) if dtls and sid else []
    random = list(X.bytes("random", 32))
    version = list(X.bytes("version", 2))
    body, fields = T.hello_body(dtls=dtls, version=version, random=random, session_id=sid, cookie=cookie, suites=suites, extensions=extensions)
    return dtls, body, fields, dict(sni=sni, suites=suites, exts=exts, extensions=extensions)


def h_differential(X, tier):
    quick = tier == "quick"
    dtls, body, fields, f = _features(
        X, sni_menu=SNI_MENU, alpn_max=3, suites_menu=[1, 3] if quick else [1, 2, 3, 5],
        unknown_menu=["none", ("first", 0), ("last", 3)] if quick else ["none", ("first", 0), ("first", 3), ("last", 0), ("last", 3)],
        sid_menu=[0, 32])
    kp = "C13/differential"
    cuts = []
    if not dtls and X.boolean("two_records"):
        cuts = [X.choose("record_cut", [1, 4, 37, len(body)])]
    data = as_buf(X, frame(body, dtls, cuts))
    kind, ch = run_parse(X, data, dtls, kp)
    # what was encoded — checked directly against the feature list (not via the reference parser) ...
    try:
        ref = T.parse_hello(body, dtls=dtls)
    except T.Reject as e:
        # the encoder can be asked for a hello the RFC forbids (empty host name, duplicate extension type):
        # only totality is demanded then
        X.reach("feature-set-malformed")
        X.check(kind in ("ok", "ve"), f"{kp}/malformed-none", "complete records but None")
        if kind == "ok":
            accessors(X, ch, kp)
        return
    X.check(kind == "ok", f"{kp}/valid-hello-rejected", f"well-formed hello (sni={f['sni']}, dtls={dtls}) rejected: {kind}")
    got = accessors(X, ch, kp)
    # ... and the reference parser must read back exactly what was encoded (validates the reference itself)
    enc_suites = f["suites"]
    if not (len(ref.cipher_suites) == len(enc_suites) and all(bool(a == b) for a, b in zip(ref.cipher_suites, enc_suites))):
        raise AssertionError("reference parser does not read back the encoded cipher suites")
    X.check(len(got["cipher_suites"]) == len(enc_suites) and all(bool(a == b) for a, b in zip(got["cipher_suites"], enc_suites)),
            f"{kp}/cipher-suites", "reported cipher suites differ from the encoded ones")
    compare(X, got, ref, kp)
    X.reach("compared")
    if f["sni"] == "host":
        X.reach("sni-host")
        X.check(got["sni"] == "example.com", f"{kp}/sni-host", f"sni {got['sni']!r} for host_name example.com")
    if f["sni"] == "a-label":
        X.check(got["sni"] == "xn--mnchen-3ya.de", f"{kp}/sni-a-label", f"sni {got['sni']!r} for the A-label xn--mnchen-3ya.de")
    if f["sni"] in ("non-ascii", "space"):
        X.reach("sni-invalid-bytes")


def h_mutations(X, tier):
    dtls, body, fields, f = _features(
        X, sni_menu=["none", "host"], alpn_max=1 if tier == "quick" else 2, suites_menu=[2], unknown_menu=["none"] if tier == "quick" else ["none", ("last", 3)], sid_menu=[0],
        collide=True)
    kp = "C13/mutations"
    mode = X.choose("mode", ["truncate", "length-field"])
    mandatory_end = fields["compression"][0] + fields["compression"][1] + 1
    if mode == "truncate":
        cut = X.choose("cut", len(body))
        mbody = body[:cut]
        what = f"truncated at {cut}/{len(body)}"
    else:
        name = X.choose("field", sorted(fields))
        off, size = fields[name]
        old = T.be(body[off : off + size])
        new = X.int("new_value", 0, (1 << (8 * size)) - 1)
        X.assume(new != old)
        mbody = body[:off] + T.u(size, new) + body[off + size :]
        what = f"length field {name} (was {old}) replaced"
    data = as_buf(X, frame(mbody, dtls))
    kind, ch = run_parse(X, data, dtls, kp)
    # (a DTLS handshake header with an empty body is no ClientHello; mitmproxy keeps waiting, which is a legitimate "incomplete")
    X.check(kind != "none" or (dtls and not mbody), f"{kp}/complete-record-none", f"{what}: complete record stream but None")
    try:
        ref = T.parse_hello(mbody, dtls=dtls)
    except T.Reject:
        ref = None
    if kind == "none":
        return
    if kind == "ok":
        got = accessors(X, ch, kp)
    if mode == "truncate" and cut < mandatory_end:
        X.reach("mandatory-part-cut")
        X.check(kind == "ve", f"{kp}/truncated-mandatory-accepted", f"{what}: mandatory fields end at {mandatory_end}, yet accepted")
    if ref is not None:
        X.reach("mutant-still-well-formed")
        X.check(kind == "ok", f"{kp}/valid-hello-rejected", f"{what}: still well-formed but rejected")
        compare(X, got, ref, kp)
    elif kind == "ok":
        X.reach("lenient-accept")
    else:
        X.reach("rejected")


# ------------------------------------------------------------------------------------------
# obligation: DTLS fragmentation (RFC 6347 §4.2.3)


def h_dtls_fragmentation(X, maxfr=3):
    sni = X.choose("sni", ["none", "host"])
    exts = [("sni", [(0, list(b"example.com"))])] if sni == "host" else None
    body, _ = T.hello_body(dtls=True, suites=(0xC02B, 0xC02F), extensions=exts)
    nfr = X.choose("fragments", list(range(1, maxfr + 1)))
    cuts, lo = [], 1
    for i in range(nfr - 1):
        c = X.choose(f"cut{i}", list(range(lo, len(body) - (nfr - 2 - i))))
        cuts.append(c)
        lo = c + 1
    frags = T.dtls_fragments(body, cuts)
    one_record = X.boolean("fragments_share_a_record") if nfr > 1 else False
    if one_record:
        stream = T.record(sum(frags, []), dtls=True)
    else:
        stream = sum((T.record(fr, dtls=True, seq=i) for i, fr in enumerate(frags)), [])
    ref_msg = T.dtls_reassemble(stream)
    if ref_msg[12:] != body:
        raise AssertionError("reference reassembly broken")
    ref = T.parse_hello(body, dtls=True)
    kp = "C13/dtls"
    kind, ch = run_parse(X, bytes(stream), True, kp)
    if nfr == 1:
        X.reach("unfragmented")
        X.check(kind == "ok", f"{kp}/unfragmented-rejected", f"{kind}")
    else:
        X.reach("fragmented")
        X.check(kind == "ok", f"{kp}/fragmented-hello", f"ClientHello of {len(body)} bytes in {nfr} handshake fragments (cuts {cuts}, "
                f"{'one record' if one_record else 'one record each'}): dtls_parse_client_hello -> {kind}; unfragmented it parses")
    got = accessors(X, ch, kp)
    compare(X, got, ref, kp + "/fragmented-hello-values" if nfr > 1 else kp)


# ------------------------------------------------------------------------------------------
# validation of the models against the real C helpers


def validate_shims():
    import io as real_io

    n = symbytes.selfcheck()
    body, _ = T.hello_body(suites=(1, 2, 0xFFFF), session_id=[7] * 32,
                           extensions=[("sni", [(0, list(b"example.com"))]), ("alpn", [list(b"h2"), list(b"http/1.1")]), (0xFF01, [0])])
    bodyd, _ = T.hello_body(dtls=True, cookie=[1, 2, 3], extensions=[("alpn", [list(b"h3")])])

    def view(raw, dtls):
        try:
            ch = mtls.ClientHello(raw, dtls=dtls)
        except EOFError as e:
            return ("EOF", type(e).__name__)
        return (ch.cipher_suites, ch.sni, ch.alpn_protocols, ch.extensions)

    for b, dtls in ((body, False), (bodyd, True)):
        for cut in range(len(b) + 1):
            raw = bytes(b[:cut])
            real = view(raw, dtls)
            _install()
            try:
                assert mtls.io is _io_shim
                model = view(raw, dtls)
                # and with the buffer wrapped as SymBytes so the symbolic-aware code paths run
                ch_s = None
                try:
                    ch_s = mtls.ClientHello(SymBytes(list(raw)), dtls=dtls)
                    sym = (list(ch_s.cipher_suites), ch_s.sni, [bytes(items_of(a)) for a in ch_s.alpn_protocols],
                           [(t, bytes(items_of(x))) for t, x in ch_s.extensions])
                except EOFError as e:
                    sym = ("EOF", type(e).__name__)
            finally:
                _uninstall()
            assert mtls.io is real_io
            real_n = real if real[0] == "EOF" else (list(real[0]), real[1], list(real[2]), list(real[3]))
            assert model == real, (cut, dtls, model, real)
            assert sym == real_n, (cut, dtls, sym, real_n)
            n += 2
    # record layer with the struct model
    data = bytes(T.split_records(T.handshake(body), [3, 50]))
    for cut in range(len(data) + 1):
        real = ltls.get_client_hello(data[:cut])
        _install()
        try:
            model = ltls.get_client_hello(SymBytes(list(data[:cut])))
        finally:
            _uninstall()
        assert (model is None) == (real is None) and (real is None or bytes(items_of(model)) == real), cut
        n += 1
    assert list(sym_range(5)) == list(range(5))
    return n


# ------------------------------------------------------------------------------------------


def obligations(tier):
    quick = tier == "quick"
    n_tls, n_dtls = (16, 29) if quick else (20, 32)
    smax, rmax = (8, 3) if quick else (10, 4)
    r_tls, r_dtls = (15, 14) if quick else (19, 18)
    e_max = int(__import__("os").environ.get("C13_EMAX", 0)) or (13 if quick else 15)
    return [
        Concrete("shim-validation", validate_shims, bounds="struct / BytesIO / KaitaiStream / range models == real C helpers on every truncation of two reference hellos",
                 encoded=[]),
        Symx("record-magic", h_magic, bounds="all byte strings of length 0..4 through starts_like_tls_record and starts_like_dtls_record",
             encoded=ENCODED[:2], must_reach=["tls-valid", "tls-invalid", "dtls-valid", "dtls-invalid"], stubs=STUBS),
        Symx("header-total-tls", shimmed(lambda X: h_header_total(X, False, n_tls)),
             bounds=f"ALL byte strings of length 0..{n_tls} through get_client_hello and handshake_record_contents",
             encoded=ENCODED[2:4], must_reach=["none", "ve", "ok", "ref-complete"], stubs=STUBS, parallel_depth=2),
        Symx("header-total-dtls", shimmed(lambda X: h_header_total(X, True, n_dtls)),
             bounds=f"ALL byte strings of length 0..{n_dtls} through get_dtls_client_hello and dtls_handshake_record_contents",
             encoded=ENCODED[5:7], must_reach=["none", "ve", "ok", "ref-complete"], stubs=STUBS, parallel_depth=2),
        Symx("reassembly", shimmed(lambda X: h_reassembly(X, smax, rmax)),
             bounds=f"handshake stream of <= {smax} fully symbolic bytes (24-bit hello length symbolic) in <= {rmax} records of every size "
                    f"split, record minor version 0..3 symbolic, optional following CCS record, every TCP prefix",
             encoded=ENCODED[2:4], must_reach=["complete", "incomplete", "complete-before-last-record", "non-handshake-record"], stubs=STUBS, parallel_depth=3),
        Symx("reassembly-dtls", shimmed(lambda X: h_reassembly_dtls(X, 4 if quick else 6)),
             bounds="DTLS record with symbolic 24-bit fragment_length, body <= 4/6 symbolic bytes, optional second record, every prefix",
             encoded=ENCODED[5:7], must_reach=["complete", "incomplete", "overlong"], stubs=STUBS, parallel_depth=3),
        Symx("layer-segmentation", lambda X: h_layer(X, 2, not quick, quick),
             bounds="real ClientTLSLayer: reference hello (SNI+ALPN) in <= 3 TLS records (cuts from " + ("{1,4,5,L-1}" if quick else "{1,3,4,5,40,L-1}") + ") with/without trailing "
                    "handshake data or a following ChangeCipherSpec + application-data record, or DTLS record (+ second handshake / ChangeCipherSpec record); TCP stream cut into <= 3 segments (first cut anywhere, second "
                    + ("anywhere" if not quick else "from 5 positions relative to the first") + "); tls_clienthello hook withheld",
             encoded=ENCODED[8:9] + ENCODED[4:5], must_reach=["hello", "completed-by-later-segment", "non-handshake-record-follows"], parallel_depth=4),
        Symx("hello-bytes-tls", shimmed(lambda X: h_hello_bytes(X, False, r_tls)),
             bounds=f"ALL ClientHello bodies of length 32..{34 + r_tls} (every byte symbolic) through parse_client_hello vs strict reference parser",
             encoded=ENCODED[4:5] + ENCODED[9:15], must_reach=["accepted", "ref-accepts", "with-extensions", "both-reject", "lenient-accept"],
             stubs=STUBS, parallel_depth=3),
        Symx("hello-bytes-dtls", shimmed(lambda X: h_hello_bytes(X, True, r_dtls)),
             bounds=f"ALL DTLS ClientHello bodies of length 33..{35 + r_dtls} (every byte symbolic) through dtls_parse_client_hello vs strict reference parser",
             encoded=ENCODED[7:8] + ENCODED[9:16], must_reach=["accepted", "ref-accepts", "with-extensions", "both-reject", "lenient-accept"],
             stubs=STUBS, parallel_depth=3),
        Symx("extension-bytes-tls", shimmed(lambda X: h_hello_bytes(X, False, e_max, ext_only=True)),
             bounds=f"ClientHello with minimal mandatory part (symbolic version/random/suite) followed by ALL byte strings of length 0..{e_max} "
                    "as extensions area, vs strict reference parser (SNI names of <= 1 symbolic byte evaluated)",
             encoded=ENCODED[4:5] + ENCODED[9:15], must_reach=["accepted", "ref-accepts", "with-extensions", "with-sni", "with-alpn", "both-reject", "sni-must-equal", "lenient-accept"],
             stubs=STUBS, parallel_depth=3),
        Symx("extension-bytes-dtls", shimmed(lambda X: h_hello_bytes(X, True, e_max - 1, ext_only=True)),
             bounds=f"same for DTLS, extensions area 0..{e_max - 1} bytes",
             encoded=ENCODED[7:8] + ENCODED[9:16], must_reach=["accepted", "ref-accepts", "with-extensions", "with-sni", "with-alpn", "both-reject", "lenient-accept"],
             stubs=STUBS, parallel_depth=3),
        Symx("differential", shimmed(lambda X: h_differential(X, tier)),
             bounds="reference-encoded hellos: TLS/DTLS x 13 SNI classes x 0..3 ALPN names (symbolic bytes, lengths 2/8/1) x k symbolic 16-bit suites x "
                    "unknown extension (symbolic 16-bit type, symbolic body) first/last x session id 0/32 x 1-2 records; random/version symbolic",
             encoded=ENCODED[4:16], must_reach=["compared", "sni-host", "sni-invalid-bytes", "sni-must-equal", "feature-set-malformed"], stubs=STUBS, parallel_depth=3),
        Symx("mutations", shimmed(lambda X: h_mutations(X, tier)),
             bounds="reference-encoded hellos (TLS/DTLS, SNI, 0..2 ALPN, unknown extension): body truncated at every offset; every length field "
                    "replaced by ANY other value (symbolic)",
             encoded=ENCODED[4:16], must_reach=["mandatory-part-cut", "rejected", "lenient-accept"], stubs=STUBS, parallel_depth=3),
        Symx("dtls-fragmentation", lambda X: h_dtls_fragmentation(X, 2 if quick else 3),
             bounds="DTLS ClientHello (with/without SNI) as 1..2 (quick) / 1..3 handshake fragments at every cut position, one record each or sharing a record",
             encoded=ENCODED[7:8], must_reach=["unfragmented", "fragmented"], parallel_depth=3),
    ]
