"""C37 — flow files are crash-consistent.

The crash point is a solver variable: the byte offset at which writing stopped ranges over EVERY offset of the
file (symbolic int, concretised by the explorer one path per offset), and the truncated file is read back by the
real `tnetstring.load` / `FlowReader.stream`.

  kernel-truncation   record = dumps(v) for selector-shaped v (every type tag, nesting, length-prefix digit
                      boundaries), optionally after a complete record: load() on every proper prefix raises one of
                      the exceptions FlowReader maps and never returns a value; at the record boundary the value is
                      returned and the next load reports the clean-end sentinel
  file-truncation     files of 1-3 real flows of every type written by the real FlowWriter, cut at every offset:
                      the reader yields exactly the flows that were completely written (same ids, same states), then
                      ends cleanly (cut on a record boundary) or raises FlowReadException — never anything else,
                      never a partial flow
  stream-save-step / stream-save-history
                      the C39 drivers (real Save addon, in-memory file showing flushed bytes only): after EVERY hook
                      the visible stream file parses completely into whole flows, namely the expected ones
"""
import io as _io

from vf.ob import Symx
from vf.refs import flowio as F
from props import C39

LEVEL = "model_checking"
ASSUMPTIONS = [
    "a crash is modelled as truncation of the byte stream at an arbitrary offset (bytes before the offset intact, none after)",
    "stream saving: the file system shows exactly the bytes written before the last flush()/close() (see C39 assumptions for the Save harness)",
    "flows are mitmproxy.test.tflow objects (one per flow type); record values for the kernel come from a selector menu covering "
    "every type tag, nesting and the 9/10 and 99/100 length-prefix boundaries",
]
OUTSIDE = ["torn writes that leave garbage after the cut, or reorder blocks (OS/file-system level)", "files of more than 3 flows",
           "the HAR/JSON reader branch"]
ENCODED = ["mitmproxy.io.tnetstring:load", "mitmproxy.io.tnetstring:parse", "mitmproxy.io.tnetstring:pop", "mitmproxy.io.tnetstring:split",
           "mitmproxy.io.tnetstring:dumps", "mitmproxy.io.io:FlowReader.stream", "mitmproxy.io.io:FlowWriter.add",
           "mitmproxy.io.io:FilteredFlowWriter.add", "mitmproxy.addons.save:Save.save_flow", "mitmproxy.addons.save:Save.done"]

MAPPED = (ValueError, TypeError, IndexError)  # what FlowReader.stream turns into FlowReadException / clean end
EMPTY = "not a tnetstring: empty file"


def _offset(X, name, n):
    """solver-chosen offset in [0, n], enumerated digit by digit in base 16 (keeps every fork <= 16 wide)"""
    v, width = 0, 1
    while 16 ** width <= n:
        width += 1
    for i in reversed(range(width)):
        v += X.choose(f"{name}_d{i}", 16 if i < width - 1 else n // 16 ** i + 1) * 16 ** i
    X.assume(v <= n)
    return v


def _kernel_value(X, tag):
    shape = X.choose(tag + "shape", ["menu", "sized"])
    if shape == "menu":
        return X.choose(tag + "value", [
            None, True, False, 0, -1, 1234567890, 10 ** 12, 1.5, float("inf"), b"", b"a", b":", b"1:a,", "", "é", "3:", [], [None], [b"ab", 1, [True]],
            (1, 2), {}, {"k": b"v"}, {"a": {"b": [1.5, None]}, "c": "d"}, {b"k": 1, 7: [], None: {}}, [[], [[]], {}], b"0:~", "12:"])
    # payload length chosen by the solver around the digit-count boundaries of the length prefix
    kind = X.choose(tag + "kind", ["bytes", "str", "list"])
    L = X.choose(tag + "len", [8, 9, 10, 11, 98, 99, 100, 101])
    if kind == "bytes":
        return b"1" * L
    if kind == "str":
        return ":" * L
    return [b""] * (L // 3) + [b"x" * (L % 3)] if L % 3 else [b""] * (L // 3)


def h_kernel(X):
    from mitmproxy.io import tnetstring

    before = X.boolean("after_complete_record")
    v0 = {"first": [1, b"x"]}
    v = _kernel_value(X, "v")
    rec0 = tnetstring.dumps(v0) if before else b""
    rec = tnetstring.dumps(v)
    cut = _offset(X, "cut", len(rec))
    X.note("record_len", len(rec))
    fo = _io.BytesIO(rec0 + rec[:cut])
    if before:
        got0 = tnetstring.load(fo)
        X.check(F.typed_eq(got0, F.norm(v0)), "C37/kernel/complete-record-lost", f"record before the cut read back as {got0!r}")
    try:
        got = tnetstring.load(fo)
    except MAPPED as e:
        if cut == len(rec):
            X.fail("C37/kernel/complete-record-rejected", f"complete record {rec!r:.80} rejected: {e}")
        if cut == 0:
            X.check(str(e) == EMPTY, "C37/kernel/boundary-not-clean", f"cut on a record boundary reports {e!r} instead of the clean-end sentinel")
            X.reach("boundary")
        else:
            X.reach("partial-rejected")
            X.reach(type(e).__name__)
        return
    # a value came back
    if cut < len(rec):
        X.fail("C37/kernel/partial-record-returned", f"load() returned {got!r:.80} from the {cut}-byte prefix {rec[:cut]!r:.80} of record {rec!r:.80}")
    X.check(F.typed_eq(got, F.norm(v)), "C37/kernel/complete-record-differs", f"{got!r:.80} != {v!r:.80}")
    try:
        tnetstring.load(fo)
        X.fail("C37/kernel/value-after-end", "load() returned a value past the end of the file")
    except MAPPED as e:
        X.check(str(e) == EMPTY, "C37/kernel/boundary-not-clean", f"end of a complete file reports {e!r}")
    X.reach("complete")


KINDS5 = ["http-resp", "ws", "tcp", "udp", "dns-resp"]


def _file_menu(tier):
    singles = [(k,) for k in F.FLOW_KINDS] if tier != "quick" else [(k,) for k in KINDS5]
    pairs = [(KINDS5[i], KINDS5[(i + 1) % 5]) for i in range(5)]
    if tier == "quick":
        return singles + pairs[:3]
    pairs = [(a, b) for a in KINDS5 for b in KINDS5]
    triples = [(KINDS5[i], KINDS5[(i + 2) % 5], KINDS5[(i + 3) % 5]) for i in range(5)] + [("http-err", "tcp-err", "dns-err")]
    return singles + pairs + triples


def h_file(X, tier):
    kinds = X.choose("flows", _file_menu(tier))
    flows = [F.base_flow(k) for k in kinds]
    states = [f.get_state() for f in flows]
    data, offs = F.write_flows(flows)
    cut = _offset(X, "cut", len(data))
    complete = sum(1 for o in offs if o <= cut)
    on_boundary = cut == 0 or cut in offs
    try:
        got, outcome = F.read_stream(data[:cut])
    except Exception as e:  # noqa
        X.fail(f"C37/file/escape/{type(e).__name__}", f"{kinds} cut at {cut}/{len(data)}: reader raised {type(e).__name__}: {e}")
    X.check(len(got) >= complete, "C37/file/complete-flow-lost", f"{kinds} cut at {cut}/{len(data)} (record ends {offs}): {complete} flows were "
            f"completely written, {len(got)} read ({outcome})")
    X.check(len(got) <= complete, "C37/file/partial-flow-returned", f"{kinds} cut at {cut}/{len(data)} (record ends {offs}): read {len(got)} flows, "
            f"only {complete} were completely written")
    for i, g in enumerate(got):
        X.check(g.id == flows[i].id and F.typed_eq(g.get_state(), states[i]), "C37/file/flow-differs",
                f"{kinds} cut at {cut}: flow {i} differs: {F.first_diff(states[i], g.get_state())}")
    if on_boundary:
        X.check(outcome == "clean", "C37/file/boundary-not-clean", f"{kinds} cut on record boundary {cut}: {outcome}")
        X.reach("boundary")
    else:
        X.reach("torn")
        X.reach("torn-" + ("clean" if outcome == "clean" else "flowread"))
    if complete and not on_boundary:
        X.reach("prefix-flows-kept")


def obligations(tier):
    q = tier == "quick"
    bud = 1800 if q else 7200
    return [
        Symx("kernel-truncation", h_kernel,
             bounds="27 menu values (every type tag, nesting <= 3, records that look like prefixes) + bytes/str/list payloads of length 8-11 and 98-101; "
                    "alone or after a complete record; EVERY cut offset 0..len(record)",
             encoded=ENCODED[:5], must_reach=["boundary", "partial-rejected", "complete", "IndexError", "ValueError"], parallel_depth=3, budget_s=bud),
        Symx("file-truncation", lambda X: h_file(X, tier),
             bounds=f"{len(_file_menu(tier))} files of 1-{'2' if q else '3'} real flows (HTTP, HTTP+WebSocket, TCP, UDP, DNS"
                    f"{'' if q else ', with errors'}) x EVERY byte offset 0..len(file) (1.2-5 kB)",
             encoded=ENCODED[5:7] + ENCODED[:4], must_reach=["boundary", "torn", "torn-flowread", "prefix-flows-kept"], parallel_depth=2, budget_s=bud),
        Symx("stream-save-step", lambda X: C39.run_step(X, tier, 2, prefix="C37/stream"),
             bounds="C39 inductive step (2 flows, all 25 kind pairs, every abstract state x every single event): visible file parses completely "
                    "into the expected whole flows before and after the event",
             encoded=ENCODED[5:] + C39.ENCODED[:4], must_reach=["end", "record-on-completion", "record-at-stop"], stubs=C39.STUBS,
             parallel_depth=3, budget_s=bud),
        Symx("stream-save-history", lambda X: C39.run_history(X, tier, 2, 2 if q else 3, 1, prefix="C37/stream"),
             bounds=f"C39 histories: <= {2 if q else 3} hooks over 2 flows + <= 1 configuration event + shutdown; file parsed after every step",
             encoded=ENCODED[5:] + C39.ENCODED[:4], must_reach=["end", "record-on-completion", "record-at-stop"], stubs=C39.STUBS,
             parallel_depth=3, budget_s=bud),
    ]
