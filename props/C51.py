"""C51 — escaped binary text converts back to the same bytes.

The real `strutils.bytes_to_escaped_str` / `escaped_str_to_bytes` are executed on solver-enumerated
byte strings (every byte string of length <= 2, every option combination; longer strings over a
class-representative alphabet that contains every character the two substitution regexes mention).
Oracle: the property sentence itself — decode(encode(d)) == d and no raw control character
(Unicode Cc) in the text except the tab / newline / CR kept on request.

The bounded runs are lifted to byte strings of any length by SMT obligations over the two `re.sub`
patterns taken from the current source: on every word of the repr token language the patterns can
only match at token boundaries and only whole tokens (locality), the token set is a prefix code
(unique left-to-right decoding), and what `m.group(1)` can hold is compared with what the pattern
consumed (a group under `*` only captures its last repetition).
"""
import re
import unicodedata

import z3

from vf import smt
from vf.ob import Smt, Symx

LEVEL = "model_checking"
ASSUMPTIONS = [
    "the 256-entry token table b -> repr(b'\"'+bytes([b]))[3:-1] is computed from the running interpreter (CPython bytes.__repr__ is "
    "per-byte; checked on every enumerated pair of bytes)",
    "codecs.escape_decode is a left-to-right token decoder (C code, trusted for lengths beyond the enumerated bound; exercised on every "
    "enumerated string)",
    "control character = Unicode general category Cc",
]
OUTSIDE = ["byte strings longer than 2 over the full alphabet are covered only through the SMT locality argument + the reduced-alphabet runs",
           "escaped_str_to_bytes on text that bytes_to_escaped_str never produces (user-edited text)"]
ENCODED = ["mitmproxy.utils.strutils:bytes_to_escaped_str", "mitmproxy.utils.strutils:escaped_str_to_bytes"]
SRC = "mitmproxy/utils/strutils.py"

OPTS = [(False, False), (False, True), (True, False), (True, True)]  # (keep_spacing, escape_single_quotes)
# every character the substitution patterns mention (backslash ' n r t), their raw counterparts, hex-escape material and one
# representative of each remaining repr class (printable, C0, DEL, high byte)
ALPHA_SMALL = [0x5C, 0x27, 0x6E, 0x0A, 0x78, 0x22, 0x00, 0x61]
ALPHA_MID = ALPHA_SMALL + [0x72, 0x74, 0x09, 0x0D, 0x35, 0x63, 0x20, 0x1B, 0x7F, 0x80, 0xFF, 0x30]
ALPHA_PAIR = ALPHA_MID[:12]  # backslash ' n \\n x " NUL a r t \\t \\r
KEPT = "\t\n\r"


def _tok(b):
    return repr(b'"' + bytes([b]))[3:-1]


def _judge(X, data, ks, esq):
    from mitmproxy.utils import strutils

    text = strutils.bytes_to_escaped_str(data, ks, esq)
    X.reach("encoded")
    bad = [c for c in text if unicodedata.category(c) == "Cc" and not (ks and c in KEPT)]
    X.check(not bad, "C51/raw-control-character", f"bytes_to_escaped_str({data!r}, {ks}, {esq}) = {text!r} contains raw control characters {bad!r}")
    try:
        back = strutils.escaped_str_to_bytes(text)
    except ValueError as e:
        back = e
    if back != data:
        if not esq and re.search(rb"\\\\'", data):
            cls = "backslash-run/quote"
        elif ks and re.search(rb"\\\\[\t\n\r]", data):
            cls = "backslash-run/kept-space"
        else:
            cls = "roundtrip/other"
        X.fail(f"C51/{cls}", f"escaped_str_to_bytes(bytes_to_escaped_str({data!r}, keep_spacing={ks}, escape_single_quotes={esq})) = "
                              f"{back!r} via text {text!r}")
    if ks and any(c in KEPT for c in text):
        X.reach("kept-space")
    if not esq and "'" in text:
        X.reach("bare-quote")


def h_full(X, n):
    """every byte string of length exactly n over all 256 values x every option combination"""
    # options and the first high nibble share one selector (fewer solver declarations per path)
    top = X.choose("opts_hi", 64)
    ks, esq = OPTS[top >> 4]
    data = bytes(((top & 15) if i == 0 else X.choose("hi", 16)) * 16 + X.choose("lo", 16) for i in range(n))
    _pair(X, data, ks, esq)


def h_pair_special(X):
    """every 2-byte string with at least one byte from ALPHA_PAIR (the other byte ranges over all 256 values)"""
    ks, esq = X.choose("opts", OPTS)
    pos = X.choose("special_pos", 2)
    sp = X.choose("special", ALPHA_PAIR)
    other = X.choose("hi", 16) * 16 + X.choose("lo", 16)
    data = bytes([sp, other] if pos == 0 else [other, sp])
    _pair(X, data, ks, esq)


def _pair(X, data, ks, esq):
    if len(data) == 2:
        # assumption of the SMT argument: repr is per-byte
        if repr(b'"' + data)[3:-1] != _tok(data[0]) + _tok(data[1]):
            raise AssertionError("bytes.__repr__ is not per-byte on %r" % data)
    _judge(X, data, ks, esq)


def h_alpha(X, n, alpha):
    ks, esq = X.choose("opts", OPTS)
    k = X.choose("len", n + 1)
    data = bytes(X.choose("b", alpha) for _ in range(k))
    _judge(X, data, ks, esq)


# ------------------------------------------------------------------------------------------
# SMT: locality of the two substitutions on the repr token language

LOOKBEHIND = r"(?<!\\)"


def _lit(s):
    return z3.Re(z3.StringVal(s))


def _group1_under_repeat(body_pat):
    """(language of the repeat node that directly wraps capture group 1, language of one repetition) or None"""
    sre_parse, sre_c = smt.sre_parse, smt.sre_c
    tree = sre_parse.parse(body_pat)

    def walk(items, parent_repeat):
        for op, av in items:
            if op is sre_c.SUBPATTERN:
                if av[0] == 1:
                    return parent_repeat
                r = walk(av[3], None)
                if r is not None:
                    return r
            elif op in (sre_c.MAX_REPEAT, sre_c.MIN_REPEAT):
                lo, hi, sub = av
                only = list(sub)
                pr = (lo, hi) if len(only) == 1 and only[0][0] is sre_c.SUBPATTERN and only[0][1][0] == 1 else None
                r = walk(sub, pr)
                if r is not None:
                    return r
            elif op is sre_c.BRANCH:
                for b in av[1]:
                    r = walk(b, None)
                    if r is not None:
                        return r
        return None

    return walk(tree, None)


def _build_smt():
    from mitmproxy.utils import strutils

    fn = smt.find_function(SRC, "bytes_to_escaped_str")
    subs = [l for l in smt.regex_literals_in(fn) if l[0] == "sub"]
    if len(subs) != 2:
        raise smt.AnchorNotFound("expected two re.sub literals in bytes_to_escaped_str, found %d" % len(subs))
    toks = {b: _tok(b) for b in range(256)}
    T = z3.Union(*[_lit(t) for t in toks.values()])
    S = smt.any_string()
    NEB = z3.Union(_lit(""), z3.Concat(S, smt._re_of_ranges(smt._complement([(92, 92)], smt.MAXCHAR))))  # does not end in backslash
    T1 = z3.Union(T, _lit("'"))  # token language after the quote substitution
    T2 = z3.Union(T1, _lit("\t"), _lit("\n"), _lit("\r"))  # ... after the spacing substitution
    bs = _lit(toks[0x5C])
    qs = []
    s = z3.String("s")
    stages = [("quote", subs[0][1], [T], _lit(toks[0x27]), b"'"),
              ("kept-space", subs[1][1], [T, T1], z3.Union(_lit(toks[9]), _lit(toks[10]), _lit(toks[13])), b"\n")]
    for nm, pat, langs, last_tok, tail in stages:
        if not pat.startswith(LOOKBEHIND):
            raise smt.AnchorNotFound(f"{nm} pattern no longer starts with the look-behind {LOOKBEHIND!r}: {pat!r}")
        body_pat = pat[len(LOOKBEHIND):]
        body = smt.regex_to_z3(body_pat)
        real = re.compile(pat)

        def rp_loc(w, real=real, nm=nm):
            text = w["s"]
            # tokenise by the interpreter's table and report a match that starts or ends inside a token
            bounds, i = {0}, 0
            alltok = sorted(set(toks.values()) | {"'"}, key=len, reverse=True)
            while i < len(text):
                t = next((t for t in alltok if text.startswith(t, i)), None)
                if t is None:
                    return False, "witness is not a token word"
                i += len(t)
                bounds.add(i)
            for m in real.finditer(text):
                if m.start() not in bounds or m.end() not in bounds:
                    return True, f"{nm} pattern matches {m.group(0)!r} at {m.start()} inside a token of {text!r}"
            return False, "every match is token aligned (not reproduced)"

        for i, Tk in enumerate(langs):
            Ts = z3.Star(Tk)
            r = z3.Intersect(Ts, z3.Concat(z3.Intersect(NEB, z3.Complement(Ts)), body, S))
            qs.append(smt.Query(f"{nm}: matches start at token boundaries (token language {i})", [z3.InRe(s, r)],
                                key=f"C51/regex/{nm}-matches-inside-token", witness_vars=[s], replay=rp_loc))

        def rp_shape(w, real=real, nm=nm):
            return bool(real.fullmatch(w["s"])), f"{nm} pattern matches {w['s']!r}, which is not (escaped backslash)* + the escaped character"

        qs.append(smt.lang_subset(f"{nm}: a match is a run of backslash tokens + one escape token", body, z3.Concat(z3.Star(bs), last_tok),
                                  key=f"C51/regex/{nm}-match-shape", replay=rp_shape))
        # what the replacement lambda can read from group 1 vs what the pattern consumed before the escape token
        rep = _group1_under_repeat(body_pat)
        if rep is not None:
            lo, hi = rep
            run = z3.Star(bs) if hi is smt.sre_c.MAXREPEAT else z3.Loop(bs, lo, hi)
            captured = z3.Union(_lit(""), bs)  # a capture group under a repeat holds its last repetition only

            def rp_cap(w, tail=tail, nm=nm):
                data = strutils.escaped_str_to_bytes(w["s"]) + tail
                for ks, esq in OPTS:
                    text = strutils.bytes_to_escaped_str(data, ks, esq)
                    if strutils.escaped_str_to_bytes(text) != data:
                        return True, (f"group 1 sits under a repeat and keeps only its last repetition: bytes_to_escaped_str({data!r}, {ks}, {esq}) = "
                                      f"{text!r} decodes to {strutils.escaped_str_to_bytes(text)!r}")
                return False, "round trip fine (not reproduced)"

            qs.append(smt.lang_subset(f"{nm}: group(1) holds the whole backslash run", run, captured,
                                      key=f"C51/backslash-run/{nm}", replay=rp_cap))
    # unique decodability of the final token set
    qs.append(smt.Query("token set after both substitutions is a prefix code", [z3.InRe(s, z3.Intersect(T2, z3.Concat(T2, z3.Plus(smt._re_of_ranges([(0, smt.MAXCHAR)])))))],
                        key="C51/regex/token-set-not-prefix-free", witness_vars=[s]))
    return qs


def obligations(tier):
    obs = [
        Smt("substitution-locality", _build_smt, bounds="all words (unbounded length) of the repr token language; both substitution patterns lifted from source",
            encoded=ENCODED[:1]),
        Symx("all-strings-len1", lambda X: h_full(X, 1), bounds="every 1-byte string (256) x 4 option combinations", encoded=ENCODED,
             must_reach=["encoded", "kept-space", "bare-quote"]),
    ]
    if tier == "quick":
        obs.append(Symx("pairs-with-special-byte", h_pair_special,
                        bounds=f"every 2-byte string with at least one byte from the {len(ALPHA_PAIR)}-byte alphabet {bytes(ALPHA_PAIR)!r} (other byte: all 256 values) "
                               "x 4 option combinations; the full 65536 x 4 product is the thorough tier",
                        encoded=ENCODED, must_reach=["encoded", "kept-space", "bare-quote"], parallel_depth=3))
        obs.append(Symx("alphabet-len4", lambda X: h_alpha(X, 4, ALPHA_SMALL),
                        bounds=f"every string of length <= 4 over the {len(ALPHA_SMALL)}-byte alphabet {bytes(ALPHA_SMALL)!r} x 4 option combinations",
                        encoded=ENCODED, must_reach=["encoded", "kept-space", "bare-quote"], parallel_depth=2))
    else:
        obs.append(Symx("all-strings-len2", lambda X: h_full(X, 2), bounds="every 2-byte string (65536) x 4 option combinations", encoded=ENCODED,
                        must_reach=["encoded", "kept-space", "bare-quote"], parallel_depth=2))
        obs.append(Symx("alphabet-len5", lambda X: h_alpha(X, 5, ALPHA_SMALL),
                        bounds=f"every string of length <= 5 over the {len(ALPHA_SMALL)}-byte alphabet {bytes(ALPHA_SMALL)!r} x 4 option combinations",
                        encoded=ENCODED, must_reach=["encoded", "kept-space", "bare-quote"], parallel_depth=3))
        obs.append(Symx("alphabet-mid-len3", lambda X: h_alpha(X, 3, ALPHA_MID),
                        bounds=f"every string of length <= 3 over the {len(ALPHA_MID)}-byte alphabet {bytes(ALPHA_MID)!r} x 4 option combinations",
                        encoded=ENCODED, must_reach=["encoded", "kept-space", "bare-quote"], parallel_depth=2))
    return obs
