"""C20 — proxy authentication is enforced on every entry path.

  kernel   (symx)  real mkauth / parse_http_basic_auth / ProxyAuth.authenticate_http / ProxyAuth.socks5_auth on
                   solver-chosen short user/password strings over an alphabet with ':', space and non-ASCII;
                   the validator is an arbitrary predicate (solver-chosen outcome, arguments recorded).
                   Oracle: whatever the validator accepts is accepted on the HTTP and the SOCKS5 path with
                   exactly that pair; whatever it refuses — and every malformed header — gets 407/401,
                   no metadata, no authenticated state.
  paths    (symx)  the real ProxyAuth addon bound to the hooks of a real HttpLayer (regular absolute-form,
                   CONNECT + inner requests, reverse, upstream) and of a real Socks5Proxy (+ inner requests);
                   sequences of <= 3 requests on one connection with credentials {none, wrong, valid[, valid
                   with ':' in the password]}.  Oracle: nothing reaches any server connection for a request
                   of an unauthenticated client, which gets 407/401 (SOCKS5: X'FF' / status X'01');
                   credentials the validator accepts are accepted; the forwarded head carries no
                   (Proxy-)Authorization.
"""
import base64
import re

from mitmproxy import http
from mitmproxy.addons import proxyauth
from mitmproxy.proxy import events, layer, layers
from mitmproxy.proxy.layers import modes
from mitmproxy.proxy.layers.http import HTTPMode
from mitmproxy.test import tflow

from vf import sansio
from vf.ob import Symx

LEVEL = "model_checking"
ASSUMPTIONS = [
    "validator = arbitrary predicate in the kernel (solver-chosen outcome); in the path harness the real AcceptAll ('any') and SingleUser ('user:pass') validators",
    "user-ids containing ':' are outside HTTP Basic (RFC 7617 section 2) and not required to round-trip",
    "the protocol layer that follows CONNECT / SOCKS5 is chosen by the harness as HttpLayer(transparent) (what the NextLayer addon picks for plain HTTP); NextLayer itself is C19",
    "server side answers every forwarded request with a fixed 200 response",
]
OUTSIDE = ["htpasswd hash verification (bcrypt) and LDAP binds", "HTTP/2 and HTTP/3 clients", "replayed flows (is_replay skips authentication by design)",
           "credential strings longer than the stated bound"]
ENCODED = [
    "mitmproxy.addons.proxyauth:ProxyAuth.requestheaders", "mitmproxy.addons.proxyauth:ProxyAuth.http_connect", "mitmproxy.addons.proxyauth:ProxyAuth.socks5_auth",
    "mitmproxy.addons.proxyauth:ProxyAuth.authenticate_http", "mitmproxy.addons.proxyauth:parse_http_basic_auth", "mitmproxy.addons.proxyauth:mkauth",
    "mitmproxy.addons.proxyauth:SingleUser.__call__", "mitmproxy.addons.proxyauth:AcceptAll.__call__", "mitmproxy.addons.proxyauth:is_http_proxy",
    "mitmproxy.proxy.layers.modes:Socks5Proxy.state_auth", "mitmproxy.proxy.layers.modes:Socks5Proxy.state_greet",
    "mitmproxy.proxy.layers.http:HttpStream.state_wait_for_request_headers", "mitmproxy.proxy.layers.http:HttpStream.handle_connect",
]

ALPHABET = ["a", "Z", ":", " ", "é"]


class _Ctx:
    """binds mitmproxy.ctx.options for the duration of a path"""

    def __init__(self, opts):
        import mitmproxy.ctx as mctx

        self.mctx, self.opts = mctx, opts

    def __enter__(self):
        self._missing = object()
        self.saved = getattr(self.mctx, "options", self._missing)
        self.mctx.options = self.opts
        return self

    def __exit__(self, *a):
        if self.saved is self._missing:
            try:
                del self.mctx.options
            except AttributeError:
                pass
        else:
            self.mctx.options = self.saved
        return False


_OPTS = {}


def _options(proxyauth_spec, mode, stream_large_bodies=None):
    k = (proxyauth_spec, mode, stream_large_bodies)
    if k not in _OPTS:
        from typing import Optional

        o = sansio.make_options(connection_strategy="lazy")
        o.add_option("proxyauth", Optional[str], None, "")
        o.update(proxyauth=proxyauth_spec)
        if stream_large_bodies:
            o.update(stream_large_bodies=stream_large_bodies)
        _OPTS[k] = o
    return _OPTS[k]


class Predicate(proxyauth.Validator):
    def __init__(self, outcome):
        self.outcome = outcome
        self.calls = []

    def __call__(self, username, password):
        self.calls.append((username, password))
        if self.outcome == "raises":
            # a failing back end (bcrypt rejects passwords over 72 bytes with ValueError, an LDAP bind error, ...)
            raise ValueError("credential check failed")
        return self.outcome


def _string(X, name, maxlen):
    n = X.choose(name + "_len", maxlen + 1)
    return "".join(X.choose(name + "_ch", ALPHABET) for _ in range(n))


MALFORMED = {
    "missing": None,
    "empty": "",
    "wrong-scheme": "Digest dXNlcjpwYXNz",
    "scheme-only": "Basic",
    "bad-base64": "Basic !!!!",
    "no-colon": "Basic " + base64.b64encode(b"userpass").decode(),
    "extra-token": "Basic dXNlcjpwYXNz extra",
    "bad-padding": "Basic dXNlcjpwYXN",
}


def _flow(mode):
    from mitmproxy.proxy import mode_specs

    f = tflow.tflow()
    f.client_conn.proxy_mode = mode_specs.ProxyMode.parse(mode)
    return f


def h_kernel(X, maxlen):
    all_modes = ["regular", "upstream:http://up:3128", "reverse:http://example.com", "transparent", "socks5"]
    mode = X.choose("mode", all_modes if maxlen <= 2 else all_modes[::2])
    is_proxy = mode.startswith(("regular", "upstream"))
    header = "Proxy-Authorization" if is_proxy else "Authorization"
    status = 407 if is_proxy else 401
    challenge = "Proxy-Authenticate" if is_proxy else "WWW-Authenticate"
    pa = proxyauth.ProxyAuth()
    case = X.choose("case", ["credentials", "malformed"])
    with _Ctx(_options("any", "k")):
        pa.configure({"proxyauth"})
        X.check(isinstance(pa.validator, proxyauth.AcceptAll), "C20/kernel/configure", "proxyauth=any did not configure AcceptAll")
        if case == "malformed":
            name = X.choose("malformed", sorted(MALFORMED))
            pred = Predicate(True)  # even a validator that accepts everything must not be reached / believed
            pa.validator = pred
            f = _flow(mode)
            if MALFORMED[name] is not None:
                f.request.headers[header] = MALFORMED[name]
            ok = pa.authenticate_http(f)
            X.reach("malformed")
            X.check(not ok and f.response is not None and f.response.status_code == status and challenge in f.response.headers,
                    f"C20/kernel/malformed/{name}/accepted", f"{mode}: header {MALFORMED[name]!r} -> ok={ok} response={f.response}")
            X.check("proxyauth" not in f.metadata and f.client_conn not in pa.authenticated, f"C20/kernel/malformed/{name}/state", f"{f.metadata}")
            return
        u = _string(X, "user", maxlen)
        p = _string(X, "password", maxlen)
        acc = X.boolean("validator_accepts")
        raising = (not acc) and X.boolean("validator_raises")  # the check itself fails: such credentials are not valid
        vout = "raises" if raising else acc
        if raising:
            X.reach("validator-raises")
        colon_user = ":" in u
        cls = "password-with-colon" if ":" in p else ("non-ascii" if (not u.isascii() or not p.isascii()) else ("empty" if not u or not p else "plain"))
        value = proxyauth.mkauth(u, p)
        # round trip of the header codec
        if not colon_user:
            try:
                got = proxyauth.parse_http_basic_auth(value)
            except ValueError as e:
                got = e
            X.check(got == ("basic", u, p), f"C20/kernel/{cls}/header-round-trip", f"parse_http_basic_auth(mkauth({u!r}, {p!r})) -> {got!r}")
        # HTTP path
        pred = Predicate(vout)
        pa.validator = pred
        f = _flow(mode)
        f.request.headers[header] = value
        f.request.headers["X-Keep"] = "1"
        try:
            ok = pa.authenticate_http(f)
        except ValueError as e:
            X.fail(f"C20/kernel/{cls}/validator-exception-escapes", f"{mode}: the validator raised {e!r} for ({u!r}, {p!r}); authenticate_http let it escape "
                   f"(the hook fails, no {status} is set: response={f.response}) - the request would be forwarded")
        X.reach("http-path")
        if colon_user:
            # outside Basic: whatever pair is derived, acceptance must follow the validator's verdict on *that* pair
            X.check(bool(ok) == bool(acc and pred.calls), "C20/kernel/colon-user/verdict", f"{u!r}:{p!r} ok={ok} calls={pred.calls}")
        elif acc:
            X.reach("accepted")
            X.check(pred.calls == [(u, p)], f"C20/kernel/{cls}/http-validator-args", f"validator saw {pred.calls}, client sent ({u!r}, {p!r})")
            X.check(ok and f.response is None, f"C20/kernel/{cls}/http-rejects-accepted-pair", f"{mode}: validator accepts ({u!r}, {p!r}) but the HTTP path answers {f.response}")
            X.check(f.metadata.get("proxyauth") == (u, p), f"C20/kernel/{cls}/http-metadata", f"{f.metadata}")
            X.check(header not in f.request.headers and f.request.headers.get("X-Keep") == "1", f"C20/kernel/{cls}/header-not-removed", f"{f.request.headers}")
        else:
            X.reach("refused")
            X.check(not ok and f.response is not None and f.response.status_code == status and challenge in f.response.headers,
                    f"C20/kernel/{cls}/http-accepts-refused-pair", f"{mode}: ok={ok} response={f.response}")
            X.check("proxyauth" not in f.metadata, f"C20/kernel/{cls}/metadata-on-refusal", f"{f.metadata}")
        # CONNECT path bookkeeping
        f2 = _flow(mode)
        f2.request.headers[header] = value
        pred2 = Predicate(vout)
        pa.validator = pred2
        try:
            pa.http_connect(f2)
        except ValueError as e:
            X.fail(f"C20/kernel/{cls}/validator-exception-escapes", f"{mode}: CONNECT: the validator raised {e!r}; http_connect let it escape, response={f2.response}")
        if not colon_user:
            X.check((f2.client_conn in pa.authenticated) == bool(acc), f"C20/kernel/{cls}/connect-state", f"acc={acc} authenticated={dict(pa.authenticated)} response={f2.response}")
            X.check(acc or f2.response is not None, f"C20/kernel/{cls}/connect-no-challenge", "refused CONNECT without a response")
        # SOCKS5 path gets the strings directly
        pred3 = Predicate(vout)
        pa.validator = pred3
        data = modes.Socks5AuthData(f.client_conn, u, p)
        try:
            pa.socks5_auth(data)
        except ValueError:
            pass  # a failing hook leaves data.valid at its default (False): judged below
        X.check(data.valid == acc and pred3.calls == [(u, p)], f"C20/kernel/{cls}/socks5-verdict", f"valid={data.valid} acc={acc} calls={pred3.calls}")
        X.check((f.client_conn in pa.authenticated) == bool(acc), f"C20/kernel/{cls}/socks5-state", f"acc={acc} but authenticated={f.client_conn in pa.authenticated}")


# ------------------------------------------------------------------------------------------
# path harness

CREDS = {"none": None, "wrong": ("user", "nope"), "valid": ("user", "pass"), "colon": ("user", "pa:ss")}
RESPONSE = b"HTTP/1.1 200 OK\r\nContent-Length: 2\r\n\r\nok"


def _accepts(spec, cred):
    """the property's notion of 'valid credentials': what the configured validator accepts"""
    if cred is None:
        return False
    if spec == "any":
        return True
    su, sp = spec.split(":", 1)
    return cred == (su, sp)


def _basic(cred):
    return "Basic " + base64.b64encode(f"{cred[0]}:{cred[1]}".encode()).decode()


class Path:
    def __init__(self, X, path, spec, pa=None, opts=None):
        self.X, self.path, self.spec = X, path, spec
        self.proxy_hdr = path in ("regular", "connect", "upstream")
        mode = {"regular": "regular", "connect": "regular", "upstream": "upstream:http://upstream.test:3128", "reverse": "reverse:http://origin.test:80", "socks5": "socks5"}[path]
        self.opts = opts or _options(spec, "p")
        self.ctx = ctx = sansio.make_context(self.opts, mode=mode)
        if path in ("regular", "connect"):
            top = layers.HttpLayer(ctx, HTTPMode.regular)
        elif path == "upstream":
            top = layers.HttpLayer(ctx, HTTPMode.upstream)
        elif path == "reverse":
            ctx.server.address = ("origin.test", 80)
            top = layers.HttpLayer(ctx, HTTPMode.transparent)
        else:
            top = modes.Socks5Proxy(ctx)
        if pa is None:
            pa = proxyauth.ProxyAuth()
            pa.configure({"proxyauth"})
        self.pa = pa
        self.d = d = sansio.Driver(top, ctx)
        self.hooked = []

        def on_hook(hook):
            n = hook.name
            self.hooked.append(n)
            if n == "requestheaders":
                self.pa.requestheaders(hook.flow)
            elif n == "http_connect":
                self.pa.http_connect(hook.flow)
            elif n == "socks5_auth":
                self.pa.socks5_auth(hook.data)
            elif isinstance(hook, layer.NextLayerHook) and hook.data.layer is None:
                hook.data.layer = layers.HttpLayer(hook.data.context, HTTPMode.transparent)
            return True

        d.on_hook = on_hook
        d.start()
        self.client_seen = 0

    # -- observations
    def server_bytes(self):
        return sum(len(v) for c, v in self.d.sent.items() if c is not self.ctx.client)

    def server_activity(self):
        return (self.server_bytes(), len(self.d.opened))

    def client_new(self):
        b = self.d.sent_to(self.ctx.client)
        new = b[self.client_seen:]
        self.client_seen = len(b)
        return new

    def answer_servers(self, before):
        """every server connection that received new bytes answers with a fixed response"""
        for c, v in list(self.d.sent.items()):
            if c is self.ctx.client:
                continue
            if len(v) > before.get(c, 0) and b"\r\n\r\n" in bytes(v[before.get(c, 0):]):
                self.d.data(c, RESPONSE)

    def snapshot(self):
        return {c: len(v) for c, v in self.d.sent.items()}

    def closed(self):
        return any(c is self.ctx.client for c, h in self.d.closed)


def _request(path, i, cred, proxy_hdr, inner=False, body=False):
    """body: False | True (Content-Length) | "chunked" (length unknown when the head is judged)"""
    marker = f"/req{i}"
    method = "POST" if body else "GET"
    if inner or path == "reverse":
        line = f"{method} {marker} HTTP/1.1\r\nHost: origin.test\r\n"
    else:
        line = f"{method} http://origin.test{marker} HTTP/1.1\r\nHost: origin.test\r\n"
    if cred is not None:
        line += f"{'Proxy-Authorization' if proxy_hdr else 'Authorization'}: {_basic(cred)}\r\n"
    if body == "chunked":
        line += "Transfer-Encoding: chunked\r\n"
        return (line + "X-Marker: m%d\r\n\r\n" % i).encode(), b"6\r\nsecret\r\n0\r\n\r\n", marker.encode()
    if body:
        line += "Content-Length: 6\r\n"
    return (line + "X-Marker: m%d\r\n\r\n" % i).encode(), (b"secret" if body else b""), marker.encode()


def _status(data):
    m = re.match(rb"HTTP/1\.[01] (\d{3})", data)
    return int(m.group(1)) if m else None


def h_paths(X, nreq, with_colon):
    path = X.choose("path", ["regular", "connect", "reverse", "upstream", "socks5"])
    spec = X.choose("proxyauth", ["user:pass", "any"])
    menu = ["none", "wrong", "valid"] + (["colon"] if with_colon else [])
    # a tiny stream_large_bodies threshold makes the layer switch to streaming while it is still buffering a body of
    # unknown length -- after ProxyAuth has already answered the request head
    slb = X.choose("stream_large_bodies", [None, "3"])
    opts = _options(spec, "p", slb)
    with _Ctx(opts):
        P = Path(X, path, spec, opts=opts)
        d, ctx = P.d, P.ctx
        tunnel = False  # CONNECT / SOCKS5 established (and therefore authenticated)
        if path == "socks5":
            cn = X.choose("socks_cred", menu)
            cred = CREDS[cn]
            key = f"C20/path/socks5/{cn}"
            before = P.server_activity()
            if cred is None:
                d.data(ctx.client, b"\x05\x01\x00")
                out = P.client_new()
                X.reach("socks5-refused")
                X.check(out[:2] == b"\x05\xff" and P.closed(), key + "/not-refused", f"client offering only 'no authentication' got {out!r}")
                X.check(P.server_activity() == before and ctx.server.address is None, key + "/reaches-server", "server side touched")
                return
            d.data(ctx.client, b"\x05\x02\x00\x02")
            X.check(P.client_new() == b"\x05\x02", key + "/method", "user/password method not selected")
            u, p = cred[0].encode(), cred[1].encode()
            d.data(ctx.client, b"\x01" + bytes([len(u)]) + u + bytes([len(p)]) + p + b"\x05\x01\x00\x03\x0borigin.test\x00\x50")
            out = P.client_new()
            if _accepts(spec, cred):
                X.reach("socks5-accepted")
                X.check(out == b"\x01\x00" + b"\x05\x00\x00\x01\x00\x00\x00\x00\x00\x00" and not P.closed(), key + "/valid-refused", f"validator accepts {cred} but SOCKS5 answered {out!r}")
                tunnel = True
            else:
                X.reach("socks5-refused")
                X.check(out[:2] == b"\x01\x01" and P.closed(), key + "/not-refused", f"{cred}: {out!r}")
                X.check(P.server_activity() == before and ctx.server.address is None, key + "/reaches-server", "server side touched by an unauthenticated SOCKS5 client")
                return
        for i in range(nreq):
            if i and not X.boolean("more"):
                break
            if P.closed():
                break
            body = b""
            if tunnel:
                cn, cred = "none", None  # authenticated tunnel: inner requests carry no credentials
                data, body, marker = _request(path, i, None, False, inner=True, body=X.choose("body", [False, True, "chunked"]))
                expect_ok = True
                kind = "inner"
            elif path == "connect" and X.boolean("send_connect"):
                cn = X.choose("cred", menu)
                cred = CREDS[cn]
                data = b"CONNECT origin.test:80 HTTP/1.1\r\nHost: origin.test:80\r\n" + (f"Proxy-Authorization: {_basic(cred)}\r\n".encode() if cred else b"") + b"\r\n"
                marker = None
                expect_ok = _accepts(spec, cred)
                kind = "connect"
            else:
                cn = X.choose("cred", menu)
                cred = CREDS[cn]
                data, body, marker = _request(path, i, cred, P.proxy_hdr, body=X.choose("body", [False, True, "chunked"]))
                expect_ok = _accepts(spec, cred)
                kind = "request"
            key = f"C20/path/{path}/{kind}/{cn}"
            refused_key = f"C20/path/{path}/password-with-colon" if cn == "colon" else key + "/valid-refused"
            before_act = P.server_activity()
            before = P.snapshot()
            d.data(ctx.client, data)
            if body:
                d.data(ctx.client, body)  # the body arrives in a segment of its own
                X.reach("with-body")
            new_srv = b"".join(bytes(v[before.get(c, 0):]) for c, v in d.sent.items() if c is not ctx.client)
            if not expect_ok:
                X.reach("refused")
                out = P.client_new()
                X.check(P.server_activity() == before_act, key + "/reaches-server", f"unauthenticated request caused server-side activity: opened={d.opened} bytes={new_srv!r}")
                want = 407 if P.proxy_hdr else 401
                hdr = b"proxy-authenticate:" if P.proxy_hdr else b"www-authenticate:"
                X.check(_status(out) == want and hdr in out.lower(), key + "/no-challenge", f"expected {want} with a challenge, client got {out[:120]!r}")
                continue
            if kind == "connect":
                out = P.client_new()
                X.reach("connect-accepted")
                X.check(_status(out) == 200, refused_key, f"validator accepts {cred} but CONNECT answered {out[:100]!r}")
                X.check(b"authorization" not in new_srv.lower(), key + "/credentials-forwarded", f"{new_srv!r}")
                tunnel = True
                continue
            X.reach("forwarded")
            X.check(marker in new_srv, refused_key, f"validator accepts {cred}, request not forwarded; client got {P.client_new()[:100]!r}")
            head = new_srv.split(b"\r\n\r\n")[0].lower()
            X.check(b"authorization" not in head, key + "/credentials-forwarded", f"forwarded head still carries credentials: {new_srv!r}")
            X.check(b"x-marker: m%d" % i in head and (new_srv.endswith(body) or (b"secret" in new_srv and b"chunked" in data)), key + "/head-damaged", f"{new_srv!r}")
            P.answer_servers(before)
            out = P.client_new()
            X.check(_status(out) == 200 and out.endswith(b"ok"), key + "/response-lost", f"client got {out!r}")
        if tunnel:
            # authentication is per client connection: another client, same addon instance, no credentials
            X.reach("second-connection")
            P2 = Path(X, "regular", spec, pa=P.pa)
            before2 = P2.server_activity()
            data, _, _ = _request("regular", 9, None, True)
            P2.d.data(P2.ctx.client, data)
            out = P2.client_new()
            X.check(P2.server_activity() == before2 and _status(out) == 407, f"C20/path/{path}/other-connection-authenticated",
                    f"a second, unauthenticated client connection was served after the first one authenticated: {out[:80]!r}")
        X.reach("end")


def obligations(tier):
    q = tier == "quick"
    ml = 2 if q else 3
    return [
        Symx("kernel", lambda X: h_kernel(X, ml), bounds=f"user, password: all strings of length 0..{ml} over {ALPHABET} x validator outcome {{accepts, refuses, raises}} x {5 if q else 3} proxy modes; {len(MALFORMED)} malformed header shapes",
             encoded=ENCODED[:9], must_reach=["http-path", "accepted", "refused", "malformed", "validator-raises"], parallel_depth=3),
        Symx("paths", lambda X: h_paths(X, 3 if q else 4, True), bounds="paths {regular absolute-form, CONNECT + inner requests, reverse, upstream, SOCKS5 + inner requests} x proxyauth {user:pass, any} x "
             f"sequences of <= {3 if q else 4} requests (GET / POST with body in its own segment; on the CONNECT path CONNECT or absolute-form) on one connection x credentials {{none, wrong, valid, valid with ':' in the password}}; then a second unauthenticated connection", encoded=ENCODED,
             must_reach=["end", "refused", "forwarded", "connect-accepted", "socks5-accepted", "socks5-refused", "with-body", "second-connection"], parallel_depth=3),
    ]
