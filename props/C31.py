"""C31 — Content-Encoding round-trips and the codec cache is transparent.

(i)  cache-step / cache-histories (symx, solver-enumerated selectors, native execution per path): the real
     `encoding.encode` / `encoding.decode` run with the codec *tables* replaced by deterministic injective
     contract stubs E_c / D_c (D_c(E_c(x)) = x, a second non-canonical encoder A_c with D_c(A_c(x)) = x, the
     documented D_c(b"") = b"" leniency, failures raised as a non-ValueError exception).  The shared `_cache`
     entry is an arbitrary consistent state chosen by the solver; one call with solver-chosen (operation,
     body, coding incl. mixed case / unknown / text codecs, errors mode) must have the same meaning as the
     same call on an empty cache and must leave the cache consistent.  Histories of k calls re-check
     reachability of the cache states and that no result depends on earlier calls.
(ii) real-* (symx): the real codecs through `Message.set_content / get_content / decode / encode` on
     solver-chosen concrete bodies; oracle = independent decoders (stdlib gzip/zlib, brotli / zstd module
     functions called directly), Content-Length vs. len(raw_content).
"""
import gzip
import zlib

from vf.ob import Symx

LEVEL = "model_checking"
ASSUMPTIONS = [
    "(i) codec tables custom_encode/custom_decode replaced by contract stubs: deterministic, injective, D(E(x))=x, "
    "D(A(x))=x for one alternative encoder A, D(b'')=b'', malformed input raises a non-ValueError Exception",
    "(i) 'same meaning' = decode results identical; encode results decode (with D) to the input; same exception type",
    "(ii) independent decoders: stdlib gzip.decompress / zlib.decompress, brotli.decompress, zstd.decompress called directly "
    "(same C libraries as mitmproxy uses, different entry points and parameters)",
    "(ii) a leading prior call on the shared cache is part of the input (none / decode of an empty body / encode of another "
    "body / decode of a differently-compressed encoding of the same body)",
]
OUTSIDE = ["all byte strings: the compressors are C code, only the body menu (empty, every 1-byte body, 300 bytes, "
           "already-compressed, invalid compressed) is exercised concretely",
           "Python bytes-to-bytes codecs (hex, base64, zlib, bz2 ...) named in Content-Encoding are applied by mitmproxy; "
           "they round-trip and are not judged", "errors modes other than strict/replace", "multiple codings in one header value"]
ENCODED = [
    "mitmproxy.net.encoding:encode", "mitmproxy.net.encoding:decode",
    "mitmproxy.http:Message.set_content", "mitmproxy.http:Message.get_content",
    "mitmproxy.http:Message.decode", "mitmproxy.http:Message.encode",
]

CACHED = ("gzip", "deflate", "deflateraw", "br", "zstd")


# ------------------------------------------------------------------------------------------
# (i) contract stubs


class StubCodecError(Exception):
    """what a real codec raises on malformed input (zlib.error, brotli.error ...): not a ValueError"""


def _E(c, x):
    return b"\x01" + c.encode() + b"\x00" + x


def _A(c, x):
    return b"\x02" + c.encode() + b"\x00" + x


def _D(c, y):
    if not y:
        return b""
    for tag in (b"\x01", b"\x02"):
        p = tag + c.encode() + b"\x00"
        if y.startswith(p):
            return y[len(p):]
    raise StubCodecError("malformed %s stream" % c)


def _stub_tables(enc):
    """(custom_encode, custom_decode) with the same keys as the real tables"""
    ce, cd = {}, {}
    for name in enc.custom_encode:
        if enc.custom_encode[name] is enc.identity:
            ce[name] = enc.identity
            cd[name] = enc.identity
        else:
            ce[name] = (lambda x, name=name: _E(name, _typed(x)))
            cd[name] = (lambda y, name=name: _D(name, _typed(y)))
    return ce, cd


def _typed(x):
    if not isinstance(x, bytes):
        raise TypeError("a bytes-like object is required, not %r" % type(x).__name__)
    return x


class _Stubbed:
    def __enter__(self):
        from mitmproxy.net import encoding as enc

        self.enc = enc
        self.saved = (enc.custom_encode, enc.custom_decode, enc._cache)
        enc.custom_encode, enc.custom_decode = _stub_tables(enc)
        return enc

    def __exit__(self, *a):
        self.enc.custom_encode, self.enc.custom_decode, self.enc._cache = self.saved


POOL = [b"", b"A", b"BB"]
CALL_CODINGS = ["gzip", "GZip", "deflate", "deflateraw", "br", "BR", "zstd", "identity", "none", "x-unknown", "utf8", "latin-1"]
CACHE_CODINGS = ["gzip", "deflate", "br"]
ERRORS = ["strict", "replace"]


def _call(enc, op, arg, coding, errors):
    try:
        r = (enc.encode if op == "encode" else enc.decode)(arg, coding, errors)
        return ("ok", r)
    except ValueError:
        return ("ValueError", None)
    except TypeError:
        return ("TypeError", None)


def _cache_consistent(enc):
    c = enc._cache
    if c.encoded is None:
        return c == enc.CachedDecode(None, None, None, None), "partially filled"
    if c.encoding not in CACHED:
        return False, f"cache entry for uncached coding {c.encoding!r}"
    if not isinstance(c.encoded, bytes) or not isinstance(c.decoded, bytes):
        return False, "non-bytes in cache"
    try:
        ok = _D(c.encoding, c.encoded) == c.decoded
    except StubCodecError:
        ok = False
    return ok, f"decoded != D(encoded): {c}"


def h_cache_step(X):
    with _Stubbed() as enc:
        # arbitrary-but-consistent cache state
        if X.boolean("cache_filled"):
            cc = X.choose("cache_coding", CACHE_CODINGS)
            cdec = X.choose("cache_body", POOL)
            cenc = (_E if X.boolean("cache_canonical") else _A)(cc, cdec)
            state = enc.CachedDecode(cenc, cc, X.choose("cache_errors", ERRORS), cdec)
        else:
            state = enc.CachedDecode(None, None, None, None)
        op = X.choose("op", ["encode", "decode"])
        coding = X.choose("coding", CALL_CODINGS)
        errors = X.choose("errors", ERRORS)
        if op == "encode":
            arg = X.choose("body", POOL)
        else:
            form = X.choose("form", ["canonical", "alternative", "garbage", "empty"])
            if form == "garbage":
                arg = b"\x09zz"
            elif form == "empty":
                arg = b""
            else:
                arg = (_E if form == "canonical" else _A)(X.choose("arg_coding", CACHE_CODINGS), X.choose("body", POOL))
        # cache-free computation
        enc._cache = enc.CachedDecode(None, None, None, None)
        free = _call(enc, op, arg, coding, errors)
        # same call on the chosen cache state
        enc._cache = state
        got = _call(enc, op, arg, coding, errors)
        hit = got[0] == "ok" and enc._cache is state and state.encoded is not None and coding.lower() == state.encoding and (
            (op == "encode" and arg == state.decoded) or (op == "decode" and arg == state.encoded)) and errors == state.errors
        if hit:
            X.reach("cache-hit")
        X.reach("called")
        lc = coding.lower()
        X.check(got[0] == free[0], f"C31/cache/outcome-differs/{op}", f"{op}({arg!r},{coding!r},{errors!r}) on cache {tuple(state)}: {got} vs cache-free {free}")
        if got[0] == "ok":
            if op == "decode":
                X.check(got[1] == free[1], "C31/cache/decode-result-differs", f"decode({arg!r},{coding!r},{errors!r}) on cache {tuple(state)}: {got[1]!r} vs cache-free {free[1]!r}")
            elif lc in CACHED:
                try:
                    back = _D(lc, got[1])
                except StubCodecError:
                    back = None
                X.check(back == arg, "C31/cache/encode-meaning-differs", f"encode({arg!r},{coding!r},{errors!r}) on cache {tuple(state)} gave {got[1]!r} which decodes to {back!r}")
            else:
                X.check(got[1] == free[1], "C31/cache/encode-result-differs", f"encode({arg!r},{coding!r}) on cache {tuple(state)}: {got[1]!r} vs {free[1]!r}")
        ok, why = _cache_consistent(enc)
        X.check(ok, "C31/cache/inconsistent-after-call", f"after {op}({arg!r},{coding!r},{errors!r}) on {tuple(state)}: {why}")


H_BODIES = [b"A", b""]
H_CODINGS = ["gzip", "br", "deflate"]


def h_cache_hist(X, K):
    with _Stubbed() as enc:
        enc._cache = enc.CachedDecode(None, None, None, None)
        n = 0
        for i in range(K):
            op = X.choose("op", ["encode", "decode-canonical", "decode-alternative", "stop"])
            if op == "stop":
                break
            b = X.choose("body", H_BODIES)
            c = X.choose("coding", H_CODINGS)
            n += 1
            before = enc._cache
            if op == "encode":
                r = enc.encode(b, c)
                back = _D(c, r)
                if before.encoded is not None and r == before.encoded and r != _E(c, b):
                    X.reach("noncanonical-from-cache")
                X.check(back == b, "C31/history/encode-meaning", f"call {n}: encode({b!r},{c!r}) -> {r!r} decodes to {back!r}")
            else:
                y = (_E if op == "decode-canonical" else _A)(c, b)
                r = enc.decode(y, c)
                X.check(r == b, "C31/history/decode-result", f"call {n}: decode({y!r},{c!r}) -> {r!r}, expected {b!r}")
            ok, why = _cache_consistent(enc)
            X.check(ok, "C31/history/cache-inconsistent", f"after call {n}: {why}")
        if n == K:
            X.reach("full-length")
        X.reach("end")


# ------------------------------------------------------------------------------------------
# (ii) real codecs

_B300 = bytes(range(256)) + b"mitmproxy-verif " * 2 + b"0123456789ab"
assert len(_B300) == 300
_INNER = b"inner payload inner payload"
_GZ9 = gzip.compress(_INNER, 9, mtime=1)
_INVALID = b"\x1f\x8b\x08\x00garbage-not-a-stream"


def _zstd():
    from mitmproxy.net import encoding as enc

    return enc.zstd


def _indep_decode(coding, raw):
    import brotli

    c = coding.lower()
    if c == "gzip":
        a = gzip.decompress(raw)
        b = zlib.decompress(raw, 16 + zlib.MAX_WBITS)
        if a != b:
            raise ValueError("stdlib gzip and zlib disagree")
        return a
    if c == "deflate":
        return zlib.decompress(raw)
    if c == "br":
        return brotli.decompress(raw)
    if c == "zstd":
        return _zstd().decompress(raw)
    raise KeyError(c)


def _indep_encode(coding, body):
    """a *different* compressor setting than mitmproxy's own (level 9 / quality 11)"""
    import brotli

    c = coding.lower()
    if c == "gzip":
        return gzip.compress(body, 9, mtime=7)
    if c == "deflate":
        return zlib.compress(body, 9)
    if c == "br":
        return brotli.compress(body, quality=11)
    if c == "zstd":
        return _zstd().compress(body, level=19)
    raise KeyError(c)


KNOWN = ("gzip", "deflate", "br", "zstd")
SET_CODINGS = [None, "identity", "gzip", "deflate", "br", "zstd", "GZIP", "Br", "x-unknown", "utf8", "latin-1", ""]


def _body(X, kinds):
    k = X.choose("body_kind", kinds)
    if k == "empty":
        return k, b""
    if k == "1byte":
        return k, bytes([X.int("byte", 0, 255)])
    if k == "1byte-menu":
        return k, bytes([X.choose("byte", [0x00, 0x1F, 0x78, 0x8B, 0xFF])])
    if k == "300":
        return k, _B300
    if k == "compressed":
        return k, _GZ9
    return k, _INVALID


def _message(X, ce, raw, te):
    from mitmproxy import http

    h = http.Headers()
    if ce is not None:
        h["Content-Encoding"] = ce
    if te:
        h["Transfer-Encoding"] = "chunked"
    if X.boolean("is_request"):
        return http.Request("example.com", 80, b"POST", b"http", b"", b"/", b"HTTP/1.1", h, raw, None, 0, 0)
    return http.Response(b"HTTP/1.1", 200, b"OK", h, raw, None, 0, 0)


def _prior(X, enc, ce, body):
    """a solver-chosen earlier use of the shared cache"""
    enc._cache = enc.CachedDecode(None, None, None, None)
    lc = (ce or "").lower()
    if lc not in KNOWN:
        return "none"
    p = X.choose("prior", ["none", "decode-empty", "encode-other", "decode-alt-same-body", "decode-alt-other-coding"])
    if p == "decode-empty":
        enc.decode(b"", lc)
    elif p == "encode-other":
        enc.encode(body + b"other", lc)
    elif p == "decode-alt-same-body":
        enc.decode(_indep_encode(lc, body), lc)
    elif p == "decode-alt-other-coding":
        oc = "br" if lc != "br" else "gzip"
        enc.decode(_indep_encode(oc, body), oc)
    return p


def _check_cl(X, m, te, where):
    if not te:
        cl = m.headers.get("content-length")
        X.check(cl == str(len(m.raw_content)), f"C31/real/content-length/{where}", f"Content-Length {cl!r} but raw body has {len(m.raw_content)} bytes")
    else:
        X.reach("with-transfer-encoding")


def h_real_set_get(X, kinds):
    from mitmproxy.net import encoding as enc

    saved = enc._cache
    try:
        kind, body = _body(X, kinds)
        ce = X.choose("coding", SET_CODINGS)
        te = X.boolean("transfer_encoding")
        m = _message(X, ce, b"old", te)
        prior = _prior(X, enc, ce, body)
        lc = (ce or "").lower()
        tag = lc if lc in KNOWN else ("identity" if lc in ("", "identity") else "unknown")
        try:
            m.set_content(body)
        except TypeError as e:
            cls = "text-codec-name" if lc in ("utf8", "latin-1") else tag
            X.fail(f"C31/real/set_content-raises-TypeError/{cls}", f"Content-Encoding {ce!r}: set_content({body[:12]!r}) raised TypeError: {e}")
        try:
            got = m.get_content()
        except ValueError as e:
            X.fail(f"C31/real/get-after-set-raises/{tag}", f"Content-Encoding {ce!r}, prior={prior}: get_content() after set_content raised {e}")
        X.check(got == body, f"C31/real/roundtrip/{tag}", f"Content-Encoding {ce!r}, prior={prior}, body {kind}: get_content() {got[:20]!r} != assigned {body[:20]!r}")
        now = m.headers.get("content-encoding")
        if tag in KNOWN:
            X.check(now == ce, f"C31/real/header-lost/{tag}", f"Content-Encoding {ce!r} became {now!r}")
            X.reach("known-coding")
            try:
                ind = _indep_decode(lc, m.raw_content)
            except Exception as e:  # noqa
                X.fail(f"C31/real/raw-not-a-{tag}-stream/prior-{prior}", f"Content-Encoding {ce!r}, prior call {prior}, body {kind}: raw body {m.raw_content[:24]!r} "
                       f"rejected by the independent {tag} decoder ({type(e).__name__}: {e})")
            X.check(ind == body, f"C31/real/independent-decode/{tag}", f"independent decoder gives {ind[:20]!r}, content {body[:20]!r}")
            if prior != "none":
                X.reach("with-history")
        elif tag == "identity":
            X.check(m.raw_content == body, "C31/real/identity-raw", f"identity coding but raw {m.raw_content[:20]!r} != content")
        else:
            # unknown coding: the message must stay self-consistent (mitmproxy removes the header)
            X.reach("unknown-coding")
            X.check(now is None and m.raw_content == body, "C31/real/unknown-coding-kept", f"unknown coding {ce!r}: header now {now!r}, raw {m.raw_content[:20]!r}")
        _check_cl(X, m, te, "set")
        X.reach("end")
    finally:
        enc._cache = saved


def h_real_decode_encode(X, kinds):
    from mitmproxy.net import encoding as enc

    saved = enc._cache
    try:
        kind, body = _body(X, kinds)
        c1 = X.choose("coding", ["identity", "gzip", "deflate", "br", "zstd", "GZIP"])
        te = X.boolean("transfer_encoding")
        l1 = c1.lower()
        raw = body if l1 == "identity" else (_indep_encode(l1, body) if X.boolean("foreign_compressor") else enc.encode(body, l1))
        m = _message(X, c1, raw, te)
        _prior(X, enc, c1, body)
        before = m.get_content()
        X.check(before == body, f"C31/real/foreign-decode/{l1}", f"{l1} body from an independent compressor decodes to {before[:20]!r}")
        m.decode()
        X.check(m.get_content() == body, f"C31/real/decode-changes-content/{l1}", f"after decode(): {m.get_content()[:20]!r} != {body[:20]!r}")
        if body:
            X.check("content-encoding" not in m.headers and m.raw_content == body, f"C31/real/decode-not-plain/{l1}",
                    f"after decode(): header {m.headers.get('content-encoding')!r}, raw {m.raw_content[:20]!r}")
            _check_cl(X, m, te, "decode")
            X.reach("decoded")
        c2 = X.choose("recode", ["gzip", "deflate", "br", "zstd", "identity"])
        m.encode(c2)
        got = m.get_content()
        X.check(got == body, f"C31/real/encode-changes-content/{c2}", f"decode() then encode({c2!r}): content {got[:20]!r} != {body[:20]!r}")
        X.check(m.headers.get("content-encoding") == c2, f"C31/real/encode-header/{c2}", f"header {m.headers.get('content-encoding')!r}")
        if c2 in KNOWN and (body or l1 == "identity"):
            try:
                ind = _indep_decode(c2, m.raw_content)
            except Exception as e:  # noqa
                X.fail(f"C31/real/reencoded-not-a-{c2}-stream", f"raw {m.raw_content[:24]!r}: {type(e).__name__}: {e}")
            X.check(ind == body, f"C31/real/independent-decode-after-encode/{c2}", f"{ind[:20]!r} != {body[:20]!r}")
        _check_cl(X, m, te, "encode")
        X.reach("end")
    finally:
        enc._cache = saved


def h_real_invalid(X):
    """raw bodies that are not valid streams: strict reads raise ValueError only, lenient reads return the raw
    body, the message is left untouched, and nothing is cached that changes a later call"""
    from mitmproxy.net import encoding as enc

    saved = enc._cache
    try:
        ce = X.choose("coding", ["gzip", "deflate", "br", "zstd", "GZip", "x-unknown", "utf8"])
        raw = X.choose("raw", [_INVALID, b"\x00", _GZ9[:-3], b"x\x9c\x03", _B300])
        te = X.boolean("transfer_encoding")
        m = _message(X, ce, raw, te)
        enc._cache = enc.CachedDecode(None, None, None, None)
        st = m.get_state()
        try:
            strict = ("ok", m.get_content(strict=True))
        except ValueError:
            strict = ("ValueError", None)
        lenient = m.get_content(strict=False)
        if strict[0] == "ok":
            # e.g. a truncated deflate stream that zlib accepts leniently: then both reads agree
            X.check(lenient == strict[1], "C31/invalid/strict-lenient-disagree", f"{ce!r} {raw[:16]!r}: strict {strict[1][:16]!r} lenient {lenient[:16]!r}")
        else:
            X.reach("rejected")
            X.check(lenient == raw, "C31/invalid/lenient-not-raw", f"{ce!r}: lenient read {lenient[:16]!r} != raw body")
            try:
                m.decode(strict=True)
                X.fail("C31/invalid/decode-strict-silent", f"{ce!r}: decode(strict=True) did not raise on {raw[:16]!r}")
            except ValueError:
                pass
        X.check(m.get_state() == st, "C31/invalid/read-mutates", "reading an undecodable body changed the message")
        # a second identical read gives the same answer (nothing bad was cached)
        try:
            again = ("ok", m.get_content(strict=True))
        except ValueError:
            again = ("ValueError", None)
        X.check(again == strict, "C31/invalid/second-read-differs", f"{strict} then {again}")
        m.decode(strict=False)
        X.check(m.get_content(strict=False) == lenient, "C31/invalid/decode-lenient-changes-content", f"{m.get_content(strict=False)[:16]!r} != {lenient[:16]!r}")
        X.reach("end")
    finally:
        enc._cache = saved


def obligations(tier):
    k = 3 if tier == "quick" else 4
    kinds_q = ["empty", "1byte-menu", "300", "compressed", "invalid"]
    kinds_t = ["empty", "1byte", "300", "compressed", "invalid"]
    kinds = kinds_q if tier == "quick" else kinds_t
    stubs = ["encoding.custom_encode/custom_decode -> injective contract stubs E_c/A_c/D_c"]
    return [
        Symx("cache-step", h_cache_step,
             bounds=f"cache state: empty or (coding in {CACHE_CODINGS}) x errors {ERRORS} x body pool {POOL} x canonical/alternative encoding; "
                    f"one encode/decode call: coding in {CALL_CODINGS} x errors x (3 bodies | canonical/alternative/garbage/empty encoded forms of 3 bodies x 3 codings)",
             encoded=ENCODED[:2], must_reach=["called", "cache-hit"], stubs=stubs, parallel_depth=3),
        Symx("cache-histories", lambda X: h_cache_hist(X, k),
             bounds=f"every sequence of <= {k} calls over {{encode, decode canonical, decode alternative}} x bodies {H_BODIES} x codings {H_CODINGS}",
             encoded=ENCODED[:2], must_reach=["end", "full-length", "noncanonical-from-cache"], stubs=stubs, parallel_depth=3),
        Symx("real-set-get", lambda X: h_real_set_get(X, kinds),
             bounds=f"bodies {kinds} ('1byte' = all 256 values) x Content-Encoding {SET_CODINGS} x Transfer-Encoding present/absent x request/response x prior cache use (5)",
             encoded=ENCODED, must_reach=["end", "known-coding", "unknown-coding", "with-history", "with-transfer-encoding"], parallel_depth=2),
        Symx("real-decode-encode", lambda X: h_real_decode_encode(X, kinds_q),
             bounds=f"bodies {kinds_q} x first coding (6, own or independent compressor) x prior cache use x re-encode coding (5) x TE x request/response",
             encoded=ENCODED, must_reach=["end", "decoded"], parallel_depth=2),
        Symx("real-invalid-raw", h_real_invalid,
             bounds="5 undecodable / truncated raw bodies x 7 codings x TE x request/response",
             encoded=ENCODED[2:5] + ENCODED[1:2], must_reach=["end", "rejected"]),
    ]
