"""C19 — ignored hosts are passed through untouched; allow/ignore rules are honoured.

  host-header-regex (smt)  the two regex literals of NextLayer._get_host_header are lifted from the current
                           source; z3 decides regex-language inclusions: every RFC 9112 Host field line
                           (any case, OWS in {SP,HTAB}* incl. none) is matched with a non-empty group, the
                           match never spans more than one field line, every request line whose method
                           starts with three letters is recognised.  Witnesses are replayed through the
                           real NextLayer decision.
  decision          (symx) real mode layers (HttpProxy+HttpLayer after CONNECT, TransparentProxy,
                           ReverseProxy, Socks5Proxy) + the real NextLayer addon bound to the next_layer
                           hook; first flight built from selectors (HTTP request with Host variants, TLS
                           ClientHello with SNI, neither), ignore_hosts / allow_hosts from a 3-pattern
                           menu, delivered in two segments at a solver-chosen cut.  Oracle: a reference
                           decision computed from the *structured* destination; a prefix may only defer.
  relay             (symx) once ignored (by rule, or by a tls_clienthello hook through the real
                           ClientTLSLayer), solver-chosen payload markers in both directions and the
                           buffered first flight come out byte-identical and in order; no TLS/HTTP/TCP
                           hook fires.
"""
import re

import z3

from mitmproxy.addons import next_layer as nl_mod
from mitmproxy.proxy import events, layer
from mitmproxy.proxy.layers import modes, tcp as tcp_layer, tls as tls_layer

from vf import sansio, smt
from vf.ob import Smt, Symx

try:
    import re._parser as sre_parse
except ImportError:  # pragma: no cover
    import sre_parse

LEVEL = "model_checking"
ASSUMPTIONS = [
    "reference decision: the connection is excluded iff (allow_hosts set and no destination form matches any allow pattern) or "
    "(some destination form matches an ignore pattern); destination forms = server address host:port, resolved peer ip:port once "
    "connected, Host header host[:port] (address port when absent), SNI:port; 'matches' = re.search, case-insensitive (option help text)",
    "request lines: only methods beginning with three ASCII letters are required to be recognised (every IANA-registered method does; "
    "NextLayer documents this heuristic) — weaker reading of 'HTTP Host header as HTTP defines it'",
    "first segments shorter than 3 bytes are outside the claim (documented minimum to recognise TLS: 'a client sending less than 3 bytes "
    "initially is not a TLS client')",
    "the intercepting layer chosen for a non-excluded connection is replaced by a recorder once the decision is observed (decision harness only)",
    "ClientHello bytes come from a minimal encoder in this module, validated at import against mitmproxy's parse_client_hello",
]
OUTSIDE = ["QUIC / UDP / DTLS", "ignore/allow regexes beyond the three menu patterns", "obs-fold continuation lines", "HTTP/2 prior-knowledge first flights",
           "next_layer decisions after an intercepted TLS handshake (context.client.sni re-check) — needs OpenSSL"]
ENCODED = [
    "mitmproxy.addons.next_layer:NextLayer.next_layer", "mitmproxy.addons.next_layer:NextLayer._next_layer",
    "mitmproxy.addons.next_layer:NextLayer._ignore_connection", "mitmproxy.addons.next_layer:NextLayer._get_host_header",
    "mitmproxy.addons.next_layer:NextLayer._get_client_hello", "mitmproxy.proxy.layers.tls:parse_client_hello",
    "mitmproxy.proxy.layers.tls:ClientTLSLayer.receive_handshake_data", "mitmproxy.proxy.layers.tcp:TCPLayer.relay_messages",
    "mitmproxy.proxy.layers.tcp:TCPLayer.start", "mitmproxy.proxy.layer:NextLayer._ask",
    "mitmproxy.proxy.layers.modes:Socks5Proxy.state_connect", "mitmproxy.proxy.layers.modes:ReverseProxy._handle_event",
    "mitmproxy.proxy.layers.modes:TransparentProxy._handle_event", "mitmproxy.proxy.layers.http:HttpStream.handle_connect_regular",
]

NL = "mitmproxy/addons/next_layer.py"

# ------------------------------------------------------------------------------------------
# (a) SMT: regex literals of _get_host_header


def _lift():
    fn = smt.find_function(NL, "NextLayer._get_host_header")
    lits = smt.regex_literals_in(fn)
    m = [l for l in lits if l[0] == "match"]
    s = [l for l in lits if l[0] == "search"]
    if len(m) != 1 or len(s) != 1:
        raise smt.AnchorNotFound(f"{NL}:_get_host_header expected one re.match and one re.search literal, found {[l[:2] for l in lits]}")
    for l in (m[0], s[0]):
        if not isinstance(l[1], bytes) or not any("IGNORECASE" in f for f in l[2]):
            raise smt.AnchorNotFound(f"{NL}:_get_host_header literal {l[1]!r}: expected a bytes pattern with re.IGNORECASE")
    return m[0][1], s[0][1]


def _mandatory_group(pat: bytes) -> bytes:
    """the source pattern with the optional wrapper `(?: ... (group 1) ... )?` made mandatory.  Done on the text
    (drop the `?`), accepted only if the sre parse tree of the result is the original tree with exactly that
    {0,1} repeat replaced by its body."""
    tree = sre_parse.parse(pat)
    items = list(tree)
    idx = [i for i, (op, av) in enumerate(items) if str(op) == "MAX_REPEAT" and av[0] == 0 and av[1] == 1 and "SUBPATTERN, (1," in str(av[2])]
    if len(idx) != 1:
        raise smt.AnchorNotFound(f"search literal {pat!r}: no optional wrapper around capture group 1")
    i = idx[0]
    want = str(items[:i] + list(items[i][1][2]) + items[i + 1:])
    for j in range(len(pat) - 1):
        if pat[j:j + 2] == b")?":
            cand = pat[:j + 1] + pat[j + 2:]
            try:
                if str(list(sre_parse.parse(cand))) == want:
                    return cand
            except re.error:
                pass
    raise smt.AnchorNotFound(f"search literal {pat!r}: cannot make the optional group mandatory")


def _cls(ranges):
    parts = [z3.Range(z3.StringVal(chr(a)), z3.StringVal(chr(b))) if a != b else z3.Re(z3.StringVal(chr(a))) for a, b in ranges]
    return parts[0] if len(parts) == 1 else z3.Union(*parts)


def _lit(s):
    return z3.Re(z3.StringVal(s))


def _ci(word):
    return z3.Concat(*[z3.Union(_lit(c.lower()), _lit(c.upper())) for c in word])


def _real_decision(data: bytes, pattern: str):
    """the real NextLayer decision for a transparent-mode connection to 192.0.2.1:80 whose first flight is `data`,
    with ignore_hosts=[pattern] -> 'ignored' | 'intercept' | 'more'"""
    import mitmproxy.ctx as mctx

    opts = _options((pattern,), (), "lazy")
    missing = object()
    saved = getattr(mctx, "options", missing)
    mctx.options = opts
    try:
        nl = nl_mod.NextLayer()
        nl.configure({"ignore_hosts", "allow_hosts", "tcp_hosts", "udp_hosts"})
        ctx = sansio.make_context(opts, mode="transparent")
        ctx.server.address = ("192.0.2.1", 80)
        modes.TransparentProxy(ctx)  # registers itself in ctx.layers
        try:
            l = nl._next_layer(ctx, data, b"")
        except nl_mod.NeedsMoreData:
            return "more"
        return _kind(l)
    finally:
        if saved is missing:
            del mctx.options
        else:
            mctx.options = saved


def _build_regex_queries():
    pat_match, pat_search = _lift()
    mand = _mandatory_group(pat_search)
    any_b = smt.any_string(is_bytes=True)
    r_mand = smt.regex_to_z3(mand, re.IGNORECASE)
    r_match = smt.regex_to_z3(pat_match, re.IGNORECASE)
    # RFC 9110 5.5 / RFC 9112 5: field-line = field-name ":" OWS field-value OWS ; field-value starts and ends with a field-vchar
    vchar = _cls([(0x21, 0x7E), (0x80, 0xFF)])
    inner = _cls([(0x09, 0x09), (0x20, 0x7E), (0x80, 0xFF)])
    value = z3.Concat(vchar, z3.Option(z3.Concat(z3.Star(inner), vchar)))
    ows = _cls([(0x09, 0x09), (0x20, 0x20)])
    crlf = _lit("\r\n")

    def host_line(pre, post=z3.Star(ows)):
        return z3.Concat(crlf, _ci("host"), _lit(":"), pre, value, post, crlf)

    contains = z3.Concat(any_b, r_mand, any_b)
    real_search = re.compile(pat_search, re.IGNORECASE)

    def rp_line(w):
        line = w["s"].encode("latin-1")
        val = line[2:-2].split(b":", 1)[1].strip(b" \t")
        data = b"GET / HTTP/1.1" + line + b"\r\n"
        ctx = sansio.make_context(_options((), (), "lazy"), mode="transparent")
        got = nl_mod.NextLayer._get_host_header(ctx, data, b"")
        want = val.decode("utf-8", "surrogateescape")
        dec = _real_decision(data, re.escape(want))
        bad = got != want
        return bad, (f"request {data!r}: _get_host_header -> {got!r}, RFC 9112 Host value is {want!r}; with ignore_hosts=[{re.escape(want)!r}] "
                     f"the real NextLayer decision for this connection is {dec!r} (reference: 'ignored')")

    qs = [
        smt.lang_subset("Host line with zero OWS before the value is recognised", host_line(_lit("")), contains, key="C19/host-header/no-ows", replay=rp_line),
        smt.lang_subset("Host line with 1*OWS before the value is recognised", host_line(z3.Plus(ows)), contains, key="C19/host-header/ows-not-matched", replay=rp_line),
    ]
    # a match of the (mandatory) Host alternative inside a block of well-formed field lines covers exactly one line
    token = z3.Plus(_cls([(0x21, 0x21), (0x23, 0x27), (0x2A, 0x2B), (0x2D, 0x2E), (0x30, 0x39), (0x41, 0x5A), (0x5E, 0x7A), (0x7C, 0x7C), (0x7E, 0x7E)]))
    field_line = z3.Concat(token, _lit(":"), z3.Star(ows), z3.Option(value), z3.Star(ows))
    block = z3.Concat(z3.Plus(z3.Concat(crlf, field_line)), crlf)
    one_line = z3.Concat(crlf, z3.Plus(_cls([(0x00, 0x09), (0x0B, 0x0C), (0x0E, 0xFF)])), crlf)

    def rp_span(w):
        blk = w["s"].encode("latin-1")
        data = b"GET / HTTP/1.1" + blk + b"\r\n"
        ctx = sansio.make_context(_options((), (), "lazy"), mode="transparent")
        got = nl_mod.NextLayer._get_host_header(ctx, data, b"")
        hosts = [ln.split(b":", 1)[1].strip(b" \t") for ln in blk.split(b"\r\n") if ln.lower().startswith(b"host:")]
        want = hosts[0].decode("utf-8", "surrogateescape") if hosts else None
        bad = (got or "") != (want or "")
        dec = _real_decision(data, re.escape(got)) if got else None
        return bad, (f"request {data!r}: _get_host_header -> {got!r} but the Host field value is {want!r} (the match runs across a line end); "
                     f"with ignore_hosts=[{re.escape(got or '')!r}] the real decision is {dec!r}")

    qs.append(smt.lang_subset("a Host match inside a header block stays within one field line", r_mand, one_line, within=block,
                              key="C19/host-header/value-from-next-line", replay=rp_span))
    # request line: method SP request-target SP "HTTP/"  (methods starting with 3 letters, see ASSUMPTIONS)
    alpha = _cls([(0x41, 0x5A), (0x61, 0x7A)])
    tchar = _cls([(0x21, 0x21), (0x23, 0x27), (0x2A, 0x2B), (0x2D, 0x2E), (0x30, 0x39), (0x41, 0x5A), (0x5E, 0x7A), (0x7C, 0x7C), (0x7E, 0x7E)])
    target = z3.Plus(_cls([(0x21, 0x7E), (0x80, 0xFF)]))
    reqline = z3.Concat(z3.Loop(alpha, 3, 3), z3.Star(tchar), _lit(" "), target, _lit(" HTTP/"))
    real_match = re.compile(pat_match, re.IGNORECASE)

    def rp_req(w):
        v = w["s"].encode("latin-1")
        return (not real_match.match(v + b"1.1\r\nHost: a\r\n\r\n")), f"request line {v!r} is not recognised as HTTP: Host header never consulted"

    qs.append(smt.lang_subset("request line (method = 3 ALPHA *tchar) is recognised", reqline, z3.Concat(r_match, any_b), key="C19/request-line/not-recognised", replay=rp_req))
    return qs


# ------------------------------------------------------------------------------------------
# shared: options, addon binding, first flights

PATTERNS = [r"example\.com", r"^192\.0\.2\.1:443$", r"secret\.test:8443$"]
DESTS = [("192.0.2.1", 443), ("example.com", 80), ("decoy.test", 443), ("decoy.test", 8443)]
RESOLVE = {"192.0.2.1": "192.0.2.1", "example.com": "203.0.113.5", "decoy.test": "192.0.2.1"}
HHOSTS = ["example.com", "secret.test"]
SNIS = ["example.com", "secret.test", None]

_OPTS = {}


def _options(ignore, allow, strategy):
    k = (tuple(ignore), tuple(allow), strategy)
    if k not in _OPTS:
        _OPTS[k] = sansio.make_options(ignore_hosts=list(ignore), allow_hosts=list(allow), connection_strategy=strategy)
    return _OPTS[k]


def client_hello(sni):
    exts = b""
    if sni is not None:
        name = sni.encode("ascii")
        entry = b"\x00" + len(name).to_bytes(2, "big") + name
        lst = len(entry).to_bytes(2, "big") + entry
        exts += b"\x00\x00" + len(lst).to_bytes(2, "big") + lst
    alpn = b"\x02h2\x08http/1.1"
    alpn = len(alpn).to_bytes(2, "big") + alpn
    exts += b"\x00\x10" + len(alpn).to_bytes(2, "big") + alpn
    body = b"\x03\x03" + bytes(range(32)) + b"\x00" + b"\x00\x02\x13\x01" + b"\x01\x00" + len(exts).to_bytes(2, "big") + exts
    hs = b"\x01" + len(body).to_bytes(3, "big") + body
    return b"\x16\x03\x01" + len(hs).to_bytes(2, "big") + hs


for _s in SNIS:
    _ch = tls_layer.parse_client_hello(client_hello(_s))
    assert _ch is not None and _ch.sni == _s, (_s, _ch)

RAW_FLIGHT = b"\x00\x01\x02binary protocol\r\n\r\n"


def _kind(l):
    if l is None:
        return "more"
    if isinstance(l, tcp_layer.TCPLayer) and l.flow is None:
        return "ignored"
    return "intercept"


class Recorder(layer.Layer):
    def __init__(self, context):
        super().__init__(context)
        self.chunks = []

    def _handle_event(self, event):
        if isinstance(event, events.DataReceived):
            self.chunks.append((event.connection, bytes(event.data)))
        yield from ()


class Bound:
    """real mode layer + real NextLayer addon bound to the next_layer hook of a sans-io driver"""

    def __init__(self, mode, dest, opts, *, replace_intercept, scheme="http", early=b""):
        import mitmproxy.ctx as mctx

        self.mctx = mctx
        self._missing = object()
        self._saved = getattr(mctx, "options", self._missing)
        mctx.options = opts
        self.nl = nl_mod.NextLayer()
        self.nl.configure({"ignore_hosts", "allow_hosts", "tcp_hosts", "udp_hosts"})
        self.decisions = []  # (bytes of client data seen, kind) for next_layer asks while armed
        self.armed = False
        self.replace_intercept = replace_intercept
        host, port = dest
        spec = {"regular": "regular", "transparent": "transparent", "socks5": "socks5", "reverse": f"reverse:{scheme}://{host}:{port}"}[mode]
        self.ctx = ctx = sansio.make_context(opts, mode=spec)
        if mode == "regular":
            top = modes.HttpProxy(ctx)
        elif mode == "transparent":
            ctx.server.address = dest
            top = modes.TransparentProxy(ctx)
        elif mode == "reverse":
            top = modes.ReverseProxy(ctx)
        else:
            top = modes.Socks5Proxy(ctx)
        self.d = d = sansio.Driver(top, ctx)
        self.hooks_after_arm = []

        def on_hook(hook):
            if isinstance(hook, layer.NextLayerHook):
                self.nl.next_layer(hook.data)
                if self.armed:
                    k = _kind(hook.data.layer)
                    self.decisions.append((len(hook.data.data_client()), k))
                    if k == "intercept" and self.replace_intercept:
                        hook.data.layer = Recorder(ctx)
            elif self.armed and hook.name not in ("http_connect", "http_connected", "server_connect", "server_connected"):
                # (the proxy's own handling of the CONNECT request is not interception of the tunnelled connection)
                self.hooks_after_arm.append(hook.name)
            return True

        d.on_hook = on_hook

        def on_open(cmd):
            cmd.connection.peername = (RESOLVE[cmd.connection.address[0]], cmd.connection.address[1])
            return None

        d.on_open = on_open
        d.start()
        self.preamble_ok = True
        if mode == "regular":
            # `early`: tunnel bytes the client sends in the same segment as its CONNECT request (before the 200)
            if early:
                self.armed = True
            d.data(ctx.client, f"CONNECT {host}:{port} HTTP/1.1\r\nHost: {host}:{port}\r\n\r\n".encode() + early)
            self.preamble_ok = d.sent_to(ctx.client).startswith(b"HTTP/1.1 200")
        elif mode == "socks5":
            if host[0].isdigit():
                import socket

                addr = b"\x01" + socket.inet_aton(host)
            else:
                addr = b"\x03" + bytes([len(host)]) + host.encode()
            d.data(ctx.client, b"\x05\x01\x00" + b"\x05\x01\x00" + addr + port.to_bytes(2, "big"))
            self.preamble_ok = d.sent_to(ctx.client) == b"\x05\x00" + b"\x05\x00\x00\x01\x00\x00\x00\x00\x00\x00"
        self.client_preamble = len(d.sent_to(ctx.client))
        self.armed = True

    def close(self):
        if self._saved is self._missing:
            try:
                del self.mctx.options
            except AttributeError:
                pass
        else:
            self.mctx.options = self._saved


def _choose_rules(X):
    ign = X.choose("ignore_hosts", [None] + PATTERNS)
    alw = X.choose("allow_hosts", [None] + PATTERNS)
    return ([ign] if ign else []), ([alw] if alw else [])


def _reference(ignore, allow, forms):
    """the property sentence: excluded iff (allow set and no form matches allow) or (some form matches ignore)"""
    if not ignore and not allow:
        return "intercept"
    if allow and not any(re.search(p, f, re.IGNORECASE) for p in allow for f in forms):
        return "ignored"
    if ignore and any(re.search(p, f, re.IGNORECASE) for p in ignore for f in forms):
        return "ignored"
    return "intercept"


HTTP_NAMES = ["Host", "host", "HOST", "hOsT"]
HTTP_PRE = ["", " ", "\t", "  ", " \t"]
HTTP_POST = ["", " ", "\t "]


def _http_flight(X, small):
    """-> (bytes, structured (host, port|None) or None, regions)"""
    present = X.choose("host_header", ["present", "absent"])
    first = X.boolean("host_first")
    other = b"Accept: */*\r\n"
    reqline = b"GET /index.html HTTP/1.1\r\n"
    if present == "absent":
        data = reqline + other + b"\r\n"
        return data, None, {"request-line": len(reqline), "host-line": (0, 0)}, "absent"
    name = X.choose("name", HTTP_NAMES[:2] if small else HTTP_NAMES[:3])
    pre = X.choose("ows_before", HTTP_PRE[:3] if small else HTTP_PRE)
    post = X.choose("ows_after", HTTP_POST[:2] if small else [HTTP_POST[0], HTTP_POST[2]])
    hhost = X.choose("hhost", HHOSTS)
    hport = X.choose("hport", [None, 8443])
    value = hhost + (f":{hport}" if hport else "")
    line = f"{name}:{pre}{value}{post}\r\n".encode()
    head = reqline + (b"" if first else other)
    data = head + line + (other if first else b"") + b"\r\n"
    return data, (hhost, hport), {"request-line": len(reqline), "host-line": (len(head), len(head) + len(line))}, ("no-ows" if pre == "" else "ows")


def _region(kind, regions, t):
    if kind == "http":
        if t < regions["request-line"]:
            return "request-line"
        a, b = regions["host-line"]
        if t < a:
            return "before-host-line"
        if t < b:
            return "host-line"
        return "after-host-line"
    if kind == "tls":
        return "record-header" if t < 5 else "client-hello"
    return "raw"


SYNTAX_RULES = [([PATTERNS[0]], []), ([], [PATTERNS[0]]), ([PATTERNS[2]], []), ([], [PATTERNS[2]])]


def _cut_menu(kind, data, regions, small):
    """structurally interesting cut points (config profile; every cut point is enumerated by the syntax profile); 0 = whole flight in one segment"""
    n = len(data)
    if kind == "http":
        rl = regions["request-line"]
        a, b = regions["host-line"]
        c = [0, 1, 3, rl - 2, rl, n - 1] + ([b - 2] if b else [])
        if not small:
            c += [2, 10, rl - 1, n - 2] + ([a + 3, b] if b else [])
    elif kind == "tls":
        c = [0, 1, 3, 5, n - 1]
        if not small:
            c += [2, 4, 9, n // 2, n - 2]
    else:
        c = [0, 3, n - 1] + ([] if small else [1, 2])
    return sorted({x for x in c if 0 <= x < n})


def h_decision(X, profile, small):
    """profile 'syntax': every Host-header spelling x every cut point, one mode, four rule sets;
    profile 'config': every mode x destination x strategy x rule pair, canonical flights"""
    scheme = "http"
    hdr = sni = None
    regions = {}
    if profile == "syntax":
        mode, dest, strategy = "transparent", DESTS[0], "lazy"
        ignore, allow = X.choose("rules", SYNTAX_RULES[:3] if small else SYNTAX_RULES)
        kind = "http"
        data, hdr, regions, variant = _http_flight(X, small)
        cuts = range(len(data))
    else:
        mode = X.choose("mode", ["regular", "transparent", "reverse", "socks5"])
        dest = X.choose("dest", DESTS[:3] if small else DESTS)
        strategy = X.choose("connection_strategy", ["lazy", "eager"])
        ignore, allow = _choose_rules(X)
        if mode == "reverse":
            scheme = X.choose("reverse_scheme", ["http", "https"] if small else ["http", "https", "tcp"])
        kind, arg = X.choose("flight", [("http", None), ("http", ("example.com", None)), ("http", ("secret.test", 8443)),
                                        ("tls", "example.com"), ("tls", "secret.test"), ("tls", None), ("raw", None)])
        variant = kind
        if kind == "http":
            reqline = b"GET /index.html HTTP/1.1\r\n"
            hdr = arg
            line = b"" if hdr is None else f"Host: {hdr[0]}{':%d' % hdr[1] if hdr[1] else ''}\r\n".encode()
            data = reqline + line + b"Accept: */*\r\n\r\n"
            regions = {"request-line": len(reqline), "host-line": (len(reqline), len(reqline) + len(line)) if line else (0, 0)}
            variant = "ows" if hdr else "absent"
        elif kind == "tls":
            sni = arg
            data = client_hello(sni)
        else:
            data = RAW_FLIGHT
        cuts = _cut_menu(kind, data, regions, small)
    t = X.choose("cut", list(cuts))  # 0 = whole flight in one segment
    b = Bound(mode, dest, _options(ignore, allow, strategy), replace_intercept=True, scheme=scheme)
    try:
        X.check(b.preamble_ok, f"C19/decision/{mode}/preamble", f"mode preamble failed: {b.d.sent_to(b.ctx.client)!r}")
        ctx, d = b.ctx, b.d
        # structured destination forms -> reference decision
        forms = [f"{dest[0]}:{dest[1]}"]
        if ctx.server.peername:
            forms.append(f"{ctx.server.peername[0]}:{ctx.server.peername[1]}")
            X.reach("peer-known")
        if hdr is not None:
            forms.append(f"{hdr[0]}:{hdr[1] if hdr[1] else dest[1]}")
        if sni is not None:
            forms.append(f"{sni}:{dest[1]}")
        exp = _reference(ignore, allow, forms)
        X.reach("expect-" + exp)
        segs = [data] if t == 0 else [data[:t], data[t:]]
        seen = 0
        final = "more"
        for i, seg in enumerate(segs):
            n0 = len(b.decisions)
            d.data(ctx.client, seg)
            seen += len(seg)
            new = b.decisions[n0:]
            X.check(len(new) <= 1, f"C19/decision/{mode}/asked-twice", f"{new}")
            if not new:
                X.fail(f"C19/decision/{mode}/{kind}/not-asked", f"no next_layer decision after {seen} bytes")
            got = new[0][1]
            whole = seen == len(data)
            if got == "more":
                X.reach("deferred")
                X.check(not whole, f"C19/decision/{kind}/{variant}/undecided-on-complete-flight", f"{mode} {dest} {data!r}: still undecided, expected {exp}")
                continue
            final = got
            if whole and t == 0:
                X.reach("decided-whole")
                X.check(got == exp, f"C19/decision/{kind}/{variant}",
                        f"mode={mode} dest={dest} strategy={strategy} ignore={ignore} allow={allow} forms={forms} flight={data!r}: {got}, reference {exp}")
            elif whole:
                X.reach("decided-after-deferral")
                X.check(got == exp, f"C19/decision/{kind}/{variant}",
                        f"mode={mode} dest={dest} strategy={strategy} ignore={ignore} allow={allow} forms={forms} flight={data!r} cut={t}: {got}, reference {exp}")
            else:
                X.reach("decided-on-prefix")
                if t >= 3 and got != exp:
                    X.fail(f"C19/prefix/{kind}/{_region(kind, regions, t)}",
                           f"mode={mode} dest={dest} ignore={ignore} allow={allow} forms={forms}: after the first {t} bytes {data[:t]!r} the decision is "
                           f"{got}; the reference decision for the flight {data!r} is {exp}")
            break
        X.check(final != "more", f"C19/decision/{kind}/{variant}/never-decided", f"{data!r}")
    finally:
        b.close()


# ------------------------------------------------------------------------------------------
# (c) relay

MARK = [b"GET / HTTP/1.1\r\nHost: example.com\r\n\r\n", b"0123456789abcdef" * 65, b"M", b"\x16\x03\x01\x00\x05hello"]
FORBIDDEN_HOOKS = ("tls_", "request", "response", "http_", "tcp_", "websocket", "dns_", "udp_", "quic_")


def h_relay(X, nsteps, nmarks):
    via = X.choose("ignored_by", ["ignore_hosts", "allow_hosts", "tls_clienthello-hook"])
    mode = X.choose("mode", ["regular", "transparent", "reverse", "socks5"])
    strategy = X.choose("connection_strategy", ["lazy", "eager"])
    dest = ("example.com", 80) if mode != "regular" else ("example.com", 443)
    scheme = "http"
    if via == "tls_clienthello-hook":
        kind = "tls"
        ignore, allow = [], []
        if mode == "reverse":
            scheme = X.choose("reverse_scheme", ["https", "tcp", "tls"])
    else:
        kind = X.choose("flight", ["http", "tls", "raw", "raw-leading-blanks"])
        ignore, allow = ([PATTERNS[0]], []) if via == "ignore_hosts" else ([], [PATTERNS[2]])
    if kind == "http":
        data = b"POST /x HTTP/1.1\r\nHost: example.com\r\nContent-Length: 3\r\n\r\nabc"
    elif kind == "tls":
        data = client_hello("example.com")
    elif kind == "raw-leading-blanks":
        # a binary protocol whose first bytes happen to be ASCII blanks (SP HTAB VT FF): payload like any other
        data = b" \t\x0b\x0c" + RAW_FLIGHT
    else:
        data = RAW_FLIGHT
    # (a first segment below the documented 3-byte minimum is not recognised as TLS: only meaningful when the rule decides)
    t = X.choose("cut", [0, 3, 5, len(data) // 2, len(data) - 1] if via == "tls_clienthello-hook" else [0, 1, 3, 5, len(data) // 2, len(data) - 1])
    early = b""
    if mode == "regular" and via != "tls_clienthello-hook":
        # part of the first flight may already arrive in the CONNECT request's segment
        e = X.choose("early_tunnel_bytes", ["none", "first-line", "whole-flight"])
        if e != "none":
            cutpos = len(data) if e == "whole-flight" else (data.find(b"\n") + 1 or len(data))
            early, rest_data = data[:cutpos], data[cutpos:]
            X.reach("early-tunnel-bytes")
    b = Bound(mode, dest, _options(ignore, allow, strategy), replace_intercept=False, scheme=scheme, early=early)
    try:
        ctx, d = b.ctx, b.d
        if via == "tls_clienthello-hook":
            inner = d.on_hook

            def on_hook(hook):
                if hook.name == "tls_clienthello":
                    hook.data.ignore_connection = True
                    b.hooks_after_arm.append("(passthrough requested)")
                    return True
                return inner(hook)

            d.on_hook = on_hook
        X.check(b.preamble_ok, f"C19/relay/{mode}/preamble", "mode preamble failed")
        pre_server = {c: len(v) for c, v in d.sent.items()}
        if early:
            segs = [rest_data] if rest_data else []
        else:
            segs = [data] if t == 0 else [data[:t], data[t:]]
        for s in segs:
            d.data(ctx.client, s)
        exp_server = bytearray(data)
        exp_client = bytearray()
        for i in range(nsteps):
            step = X.choose("step", ["c2s", "s2c", "stop"])
            if step == "stop":
                break
            m = X.choose("marker", MARK[:nmarks])
            m = m + bytes([0x30 + i])
            if step == "c2s":
                d.data(ctx.client, m)
                exp_server += m
            else:
                if ctx.server.state.name == "CLOSED" or not ctx.server.connected:
                    X.fail(f"C19/relay/{via}/{mode}/server-not-connected", "ignored connection has no upstream connection after the first flight")
                d.data(ctx.server, m)
                exp_client += m
            X.reach("marker-" + step)
        if via == "tls_clienthello-hook":
            X.check("(passthrough requested)" in b.hooks_after_arm, f"C19/relay/{via}/{mode}/hook-not-reached", f"{b.hooks_after_arm} {d.logs}")
            bad = [h for h in b.hooks_after_arm if h.startswith(FORBIDDEN_HOOKS) and h != "tls_clienthello"]
        else:
            X.check(b.decisions and b.decisions[-1][1] == "ignored", f"C19/relay/{via}/{mode}/not-ignored", f"{b.decisions}")
            bad = [h for h in b.hooks_after_arm if h.startswith(FORBIDDEN_HOOKS)]
        X.reach("ignored")
        got_server = d.sent_to(ctx.server)
        got_client = d.sent_to(ctx.client)[b.client_preamble:]
        X.check(got_server == bytes(exp_server), f"C19/relay/{via}/{mode}/{kind}/to-server", f"server got {got_server!r}, expected {bytes(exp_server)!r}")
        X.check(got_client == bytes(exp_client), f"C19/relay/{via}/{mode}/{kind}/to-client", f"client got {got_client!r}, expected {bytes(exp_client)!r}")
        X.check(not bad, f"C19/relay/{via}/{mode}/hook-fired", f"hooks fired on an ignored connection: {bad}")
        others = [c for c in d.sent if c is not ctx.client and c is not ctx.server and len(d.sent[c])]
        X.check(not others, f"C19/relay/{via}/{mode}/bytes-to-other-connection", f"{others}")
    finally:
        b.close()


def obligations(tier):
    q = tier == "quick"
    return [
        Smt("host-header-regex", _build_regex_queries, bounds="all byte strings (unbounded length): z3 regex inclusion over the literals lifted from NextLayer._get_host_header",
            encoded=ENCODED[3:4]),
        Symx("decision-syntax", lambda X: h_decision(X, "syntax", q), bounds="transparent mode, " + ("3" if q else "4") + " rule sets (ignore_hosts / allow_hosts in {example\\.com, secret\\.test:8443$}) x HTTP first flight {Host absent / "
             + ("2 cases x 3 OWS-before x 2 OWS-after" if q else "3 cases x 5 OWS-before x 2 OWS-after") + " x 2 hosts x port present/absent} x Host first/second x every cut point of the flight (two segments)",
             encoded=ENCODED, must_reach=["expect-ignored", "expect-intercept", "deferred", "decided-whole", "decided-after-deferral", "decided-on-prefix"], parallel_depth=4),
        Symx("decision-config", lambda X: h_decision(X, "config", q), bounds=("4 modes (reverse: http/https) x 3 destinations" if q else "4 modes (reverse: http/https/tcp) x 4 destinations")
             + " x lazy/eager x ignore_hosts,allow_hosts in {unset, 3 patterns}^2 x 7 first flights (HTTP without Host / 2 Host values, ClientHello with 2 SNIs / none, raw) x "
             + ("a menu of <= 7 structural cut points" if q else "a menu of <= 13 structural cut points"), encoded=ENCODED,
             must_reach=["expect-ignored", "expect-intercept", "deferred", "decided-whole", "decided-after-deferral", "decided-on-prefix", "peer-known"], parallel_depth=4),
        Symx("relay", lambda X: h_relay(X, 2 if q else 3, 2 if q else 3), bounds=f"ignored by ignore_hosts / allow_hosts / tls_clienthello hook x 4 modes x lazy/eager x flight {{http, tls, raw, raw starting with SP HTAB VT FF}} x 6 cut points x <= {2 if q else 3} markers "
             f"({'2 payloads: HTTP-looking, 1040 bytes' if q else '3 payloads: HTTP-looking, 1040 bytes, 1 byte'}) in either direction", encoded=ENCODED, must_reach=["ignored", "marker-c2s", "marker-s2c"], parallel_depth=4),
    ]
