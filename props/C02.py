"""C02 — HTTP/1 behaviour does not depend on TCP segmentation or pipelining.

Differential through the real HttpLayer (regular mode) + Http1Server/Http1Client + h11 ReceiveBuffer:
a solver-chosen scenario (1-2 pipelined requests, a response kind per request, body streaming on/off)
is run once *unsplit* (whole client stream in one segment, every response in one segment as soon as
the server has the complete request) and once *split*: the cut points of the client stream and of every
response, and the interleaving of client/server segment arrival, are solver-enumerated selectors.
Oracle: both runs must show the same hook sequence, the same flows, and the same messages per peer as
read by the independent parser vf/refs/http1ref.py; in every run response i must belong to request i.

The server is modelled causally: it emits the response to a request once it has received that request
completely (decided by the reference parser on the bytes mitmproxy wrote to it), so interleavings that
no real peer can produce (a response before its request) are not generated.
"""
from mitmproxy.connection import ConnectionState

from vf import sansio
from vf.ob import Symx
from vf.refs import http1ref

LEVEL = "model_checking"
ASSUMPTIONS = [
    "causal server model: the response to request i is released when the reference parser finds i complete requests in the bytes written to the server connections",
    "hooks complete immediately (interception is C04/C11); both connections are closed by the peers after the last segment",
    "oracle for 'semantically identical messages' = vf/refs/http1ref.py (RFC 9112 parser): method/target/status, header fields, de-chunked body",
]
OUTSIDE = ["segmentations with more cut points than the stated bound (covered only through the one-byte-segment obligation)",
           "streams outside the scenario menu (header menus of C01 are not crossed with segmentation)", "HTTP/2, HTTP/3"]
ENCODED = [
    "mitmproxy.proxy.layers.http._http1:Http1Connection._handle_event", "mitmproxy.proxy.layers.http._http1:Http1Connection.read_body",
    "mitmproxy.proxy.layers.http._http1:Http1Connection.wait", "mitmproxy.proxy.layers.http._http1:Http1Connection.mark_done",
    "mitmproxy.proxy.layers.http._http1:Http1Server.read_headers", "mitmproxy.proxy.layers.http._http1:Http1Client.read_headers",
    "mitmproxy.proxy.layers.http._http1:Http1Client.send", "mitmproxy.proxy.layers.http._http1:Http1Server.send",
    "mitmproxy.proxy.layers.http:HttpLayer._handle_event", "mitmproxy.proxy.layers.http:HttpStream.state_consume_request_body",
    "mitmproxy.proxy.layers.http:HttpStream.state_stream_request_body", "mitmproxy.proxy.layers.http:HttpStream.state_stream_response_body",
]

_OPTS = None


def _opts():
    global _OPTS
    if _OPTS is None:
        _OPTS = sansio.make_options(validate_inbound_headers=True)
    return _OPTS


# ------------------------------------------------------------------------------------------
# scenario menus (short on purpose: every byte position is a cut point = a path)

REQ_KINDS = ["get", "post-cl", "post-chunked", "head", "crlf-get"]


def req_bytes(kind, i):
    p = b"/%d" % i
    if kind == "get":
        return b"GET http://h" + p + b" HTTP/1.1\r\nHost: h\r\n\r\n"
    if kind == "head":
        return b"HEAD http://h" + p + b" HTTP/1.1\r\nHost: h\r\n\r\n"
    if kind == "post-cl":
        return b"POST http://h" + p + b" HTTP/1.1\r\nHost: h\r\nContent-Length: 3\r\n\r\nabc"
    if kind == "post-chunked":
        return b"POST http://h" + p + b" HTTP/1.1\r\nHost: h\r\nTransfer-Encoding: chunked\r\n\r\n2\r\nab\r\n1\r\nc\r\n0\r\n\r\n"
    if kind == "crlf-get":
        # an empty line before the request line (RFC 9112 2.2: a server SHOULD ignore at least one)
        return b"\r\n" + req_bytes("get", i)
    raise AssertionError(kind)


RESP_KINDS = ["cl", "chunked", "close", "304", "crlf-cl", "crlf2-cl"]
SURPLUS = b"xyz"


def resp_segments(kind, target, method):
    """-> (bytes, server closes afterwards); a well-behaved server: no content in reply to HEAD"""
    tag = b"X-For: " + target + b"\r\n"
    nobody = method == b"HEAD"
    if kind == "cl":
        return b"HTTP/1.1 200 OK\r\n" + tag + b"Content-Length: 2\r\n\r\n" + (b"" if nobody else b"hi"), False
    if kind == "chunked":
        return b"HTTP/1.1 200 OK\r\n" + tag + b"Transfer-Encoding: chunked\r\n\r\n" + (b"" if nobody else b"1\r\nh\r\n1\r\ni\r\n0\r\n\r\n"), False
    if kind == "close":
        # body delimited by closing the connection; where the reply has no body the server announces the close
        # (otherwise the close would race with the next request on a connection the proxy may legitimately reuse)
        return b"HTTP/1.1 200 OK\r\n" + tag + (b"Connection: close\r\n\r\n" if nobody else b"\r\nhi"), True
    if kind == "304":
        return b"HTTP/1.1 304 Not Modified\r\n" + tag + b"\r\n", False
    if kind == "crlf-cl":
        return b"\r\n" + resp_segments("cl", target, method)[0], False
    if kind == "crlf2-cl":
        return b"\r\n\r\n" + resp_segments("cl", target, method)[0], False
    if kind.endswith("+surplus"):
        # a misbehaving server: bytes that belong to no response directly behind a complete, self-delimited one
        return resp_segments(kind[: -len("+surplus")], target, method)[0] + SURPLUS, False
    raise AssertionError(kind)


# ------------------------------------------------------------------------------------------
# one run


def _execute(reqs, resps, stream, csegs, cut_response, pick):
    """reqs: request kinds (informational), the client stream pieces are `csegs`; resps[i]: response kind for the i-th request the server receives;
    cut_response(i, data) -> list of segments; pick(step) -> "c" | "s" when both a client and a server segment can arrive"""
    from mitmproxy.proxy.layers import http as mhttp

    ctx = sansio.make_context(_opts())
    d = sansio.Driver(mhttp.HttpLayer(ctx, mhttp.HTTPMode.regular), ctx)
    flows, hooks = [], []

    def on_hook(h):
        f = h.args()[0]
        if not any(f is g for g in flows):
            flows.append(f)
        hooks.append((h.name, [i for i, g in enumerate(flows) if g is f][0]))
        if stream:
            if h.name == "requestheaders":
                f.request.stream = True
            elif h.name == "responseheaders":
                f.response.stream = True
        return True

    d.on_hook = on_hook
    d.start()
    ci, answered, cur, step, acts = 0, 0, None, 0, []
    while True:
        if cur is None and answered < len(resps):
            got = []
            for s in d.opened:
                msgs, _, _ = http1ref.parse_stream(d.sent_to(s), "request", eof=False)
                got += [(s, m) for m in msgs]
            if answered < len(got):
                conn, m = got[answered]
                data, close = resp_segments(resps[answered], m.target, m.method)
                cur = [conn, list(cut_response(answered, data)) + ([None] if close else [])]
        en = (["c"] if ci < len(csegs) else []) + (["s"] if cur is not None else [])
        if not en:
            break
        a = en[0] if len(en) == 1 else pick(step)
        step += 1
        acts.append(a)
        if a == "c":
            d.data(ctx.client, csegs[ci])
            ci += 1
        else:
            conn, segs = cur
            seg = segs.pop(0)
            if conn.state & ConnectionState.CAN_READ:  # nothing can arrive on a connection the proxy has closed
                if seg is None:
                    d.close(conn)
                else:
                    d.data(conn, seg)
            if not segs:
                cur = None
                answered += 1
    d.close(ctx.client)
    for s in list(d.opened):
        d.close(s)

    def msg(m):
        return (m.method, m.target, m.status, tuple((n.lower(), v) for n, v in m.fields), m.body)

    server = []
    for s in d.opened:
        msgs, left, err = http1ref.parse_stream(d.sent_to(s), "request", eof=True)
        server.append(([msg(m) for m in msgs], err))
    methods = [bytes(f.request.data.method) for f in flows]
    cm, cleft, cerr = http1ref.parse_stream(d.sent_to(ctx.client), "response", methods + [b"GET"] * 2, eof=True)

    def fl(f):
        rq, rs = f.request, f.response
        return ((bytes(rq.data.method), bytes(rq.data.path), tuple(rq.headers.fields), rq.raw_content),
                None if rs is None else (rs.status_code, tuple(rs.headers.fields), rs.raw_content),
                None if f.error is None else f.error.msg, f.live)

    return {"hooks": hooks, "flows": [fl(f) for f in flows], "server": server, "client": ([msg(m) for m in cm], cerr),
            "client_closed_by_proxy": any(c is ctx.client for c, _ in d.closed), "_acts": "".join(acts)}


def _whole(i, data):
    return [data]


def _in_order(X, obs, what, tag):
    """pipelined requests are answered in order, each response matched to its own request"""
    for (rq, rs, err, live) in obs["flows"]:
        if rs is not None:
            xf = [v for n, v in rs[1] if n.lower() == b"x-for"]
            X.check(xf == [rq[1]], f"C02/{tag}/response-matched-to-wrong-request", f"{what}: flow for {rq[1]!r} carries the response meant for {xf}")
    order = [rq[1] for (rq, rs, err, live) in obs["flows"] if rs is not None]
    seen = [dict(m[3]).get(b"x-for") for m in obs["client"][0] if dict(m[3]).get(b"x-for") is not None]
    X.check(seen == order[: len(seen)] and (obs["client"][1] is not None or len(seen) == len(order)), f"C02/{tag}/responses-out-of-order",
            f"{what}: client reads responses for {seen}, flows with a response in request order: {order}")


_BASE = {}  # memo of the (deterministic) unsplit run per scenario


def _compare(X, tag, scen, base, obs, how):
    for part in ("hooks", "flows", "server", "client", "client_closed_by_proxy"):
        X.check(base[part] == obs[part], f"C02/{tag}/{part.replace('_', '-')}-differ",
                f"scenario {scen}: {how}\n  unsplit {part}: {base[part]}\n  split   {part}: {obs[part]}")


def _scenario(X, cfg):
    first = X.choose("req1", cfg["req1"])
    second = X.choose("req2", cfg["req2"])
    kinds = [first] + ([second] if second != "-" else [])
    resps = [X.choose("resp", cfg["resp"]) for _ in kinds]
    stream = X.choose("stream", cfg["stream"])
    return kinds, resps, stream


def _tag(cfg, kinds, resps):
    t = cfg["name"]
    if any(k.startswith("crlf") for k in kinds):
        t += "/empty-line-before-request"
    if any(k.startswith("crlf") for k in resps):
        t += "/empty-line-before-response"
    return t


def _baseline(kinds, resps, stream):
    k = (tuple(kinds), tuple(resps), stream)
    if k not in _BASE:
        S = b"".join(req_bytes(kd, i) for i, kd in enumerate(kinds))
        _BASE[k] = _execute(kinds, resps, stream, [S], _whole, lambda step: "s")
    return _BASE[k]


def h_cuts(X, cfg):
    """<= cfg['ccuts'] cut points in the client stream, <= cfg['scuts'] in every response, every interleaving"""
    kinds, resps, stream = _scenario(X, cfg)
    tag = _tag(cfg, kinds, resps)
    S = b"".join(req_bytes(kd, i) for i, kd in enumerate(kinds))
    base = _baseline(kinds, resps, stream)
    _in_order(X, base, "unsplit run", tag)
    # client cut points 0 < a < b < |S| (solver-enumerated; "no cut" is position 0)
    cuts, lo = [], 1
    for j in range(cfg["ccuts"]):
        if lo >= len(S):
            break
        c = X.choose("ccut", len(S) - lo + 1)  # 0 = no further cut, else position lo + c - 1
        if c == 0:
            break
        cuts.append(lo + c - 1)
        lo = cuts[-1] + 1
    csegs = [S[a:b] for a, b in zip([0] + cuts, cuts + [len(S)])]
    scut_log = []

    def cut_response(i, data):
        pts, lo = [], 1
        for j in range(cfg["scuts"] if i == 0 or not cfg.get("scut_first_only") else 0):
            if lo >= len(data):
                break
            c = X.choose("scut", len(data) - lo + 1)
            if c == 0:
                break
            pts.append(lo + c - 1)
            lo = pts[-1] + 1
        scut_log.append(pts)
        return [data[a:b] for a, b in zip([0] + pts, pts + [len(data)])]

    def pick(step):
        return X.choose("next", ["c", "s"])  # which side's next segment arrives first

    obs = _execute(kinds, resps, stream, csegs, cut_response, pick)
    X.reach("ran")
    if cuts:
        X.reach("client-cut")
    if any(scut_log):
        X.reach("server-cut")
    if "sc" in obs["_acts"].replace("ss", "s"):
        X.reach("client-segment-after-server-segment")
    if len(base["flows"]) == 2 and base["flows"][1][1] is not None:
        X.reach("two-flows-complete")
    if any(h[0] == "response" for h in base["hooks"]):
        X.reach("response-hook")
    how = f"client cuts {cuts}, response cuts {scut_log}, arrival order {obs['_acts']}, stream={stream}"
    _compare(X, tag, (kinds, resps, stream), base, obs, how)
    _in_order(X, obs, "split run (" + how + ")", tag)


def h_bytewise(X, cfg):
    """every byte its own segment on both sides; interleaving policy solver-chosen"""
    kinds, resps, stream = _scenario(X, cfg)
    tag = _tag(cfg, kinds, resps)
    S = b"".join(req_bytes(kd, i) for i, kd in enumerate(kinds))
    base = _baseline(kinds, resps, stream)
    cmode = X.choose("client_segments", ["bytes", "whole"])
    smode = X.choose("server_segments", ["bytes", "whole"])
    pol = X.choose("interleave", ["server-first", "client-first", "alternate"])
    csegs = [S[i:i + 1] for i in range(len(S))] if cmode == "bytes" else [S]
    cut = (lambda i, data: [data[j:j + 1] for j in range(len(data))]) if smode == "bytes" else _whole
    pick = {"server-first": lambda st: "s", "client-first": lambda st: "c", "alternate": lambda st: "cs"[st % 2]}[pol]
    obs = _execute(kinds, resps, stream, csegs, cut, pick)
    X.reach("ran")
    if any(h[0] == "response" for h in base["hooks"]):
        X.reach("response-hook")
    if len(base["flows"]) == 2 and base["flows"][1][1] is not None:
        X.reach("two-flows-complete")
    _compare(X, tag, (kinds, resps, stream), base, obs, f"client {cmode}, server {smode}, {pol}, stream={stream}")
    _in_order(X, obs, "one-byte-segment run", tag)


def h_surplus(X, cfg):
    """a NON-pipelining client (request 2 is sent after response 1 has arrived completely) and a server that sends surplus bytes
    behind response 1: where the response/surplus bytes are cut into segments must not matter.  (With a pipelining client the
    surplus races with request 2 on the wire itself, which no proxy can hide -- those schedules are not generated.)"""
    first = X.choose("req1", cfg["req1"])
    r1 = X.choose("resp1", cfg["resp1"])
    stream = X.choose("stream", cfg["stream"])
    kinds, resps = [first, "get"], [r1, "cl"]
    tag = cfg["name"]
    csegs = [req_bytes(first, 0), req_bytes("get", 1)]
    k = ("surplus", first, r1, stream)
    if k not in _BASE:
        _BASE[k] = _execute(kinds, resps, stream, csegs, _whole, lambda step: "s")
    base = _BASE[k]
    scut_log = []

    def cut_response(i, data):
        pts, lo = [], 1
        for j in range(cfg["scuts"] if i == 0 else 0):
            if lo >= len(data):
                break
            c = X.choose("scut", len(data) - lo + 1)
            if c == 0:
                break
            pts.append(lo + c - 1)
            lo = pts[-1] + 1
        scut_log.append(pts)
        return [data[a:b] for a, b in zip([0] + pts, pts + [len(data)])]

    obs = _execute(kinds, resps, stream, csegs, cut_response, lambda step: "s")
    X.reach("ran")
    if scut_log and scut_log[0]:
        X.reach("server-cut")
    if len(base["flows"]) == 2 and base["flows"][1][1] is not None:
        X.reach("two-flows-complete")
    how = f"response+surplus cuts {scut_log}, non-pipelining client, stream={stream}"
    _in_order(X, base, "unsplit run", tag)
    _compare(X, tag, (kinds, resps, stream), base, obs, how)
    _in_order(X, obs, "split run (" + how + ")", tag)
    for what, o in (("unsplit", base), ("split", obs)):
        X.check(len(o["flows"]) == 2 and all(f[1] is not None and f[1][0] == 200 or f[1] is not None and f[1][0] == 304 for f in o["flows"]),
                f"C02/{tag}/surplus-bytes-leak-into-next-exchange",
                f"{what} run ({how}): a request sent after the previous exchange was complete did not get its own response: {o['flows']}")


def obligations(tier):
    q = tier == "quick"
    single = {"name": "single-2cuts", "req1": ["get", "post-cl", "post-chunked"] + ([] if q else ["head", "crlf-get"]), "req2": ["-"],
              "resp": ["cl"], "stream": [False] if q else [False, True], "ccuts": 2, "scuts": 0}
    pair = {"name": "pipelined-1cut", "req1": ["get", "post-cl", "post-chunked", "crlf-get"], "req2": ["get", "post-cl", "crlf-get"] if q else ["get", "post-cl", "post-chunked", "crlf-get"],
            "resp": ["cl"], "stream": [False, True], "ccuts": 1 if q else 2, "scuts": 0}
    if not q:
        pair["name"] = "pipelined-2cuts"
        pair["stream"] = [False]
    server = {"name": "server-2cuts", "req1": ["get", "head"] if q else ["get", "head", "post-cl"], "req2": ["-"],
              "resp": ["cl", "chunked", "close", "304"] + ([] if q else ["crlf-cl"]), "stream": [False] if q else [False, True], "ccuts": 0, "scuts": 2}
    both = {"name": "both-1cut", "req1": ["get"] if q else ["get", "post-cl"], "req2": ["get"], "resp": ["cl"] if q else ["cl", "chunked"],
            "stream": [False], "ccuts": 1, "scuts": 1, "scut_first_only": True}
    bw = {"name": "one-byte-segments", "req1": REQ_KINDS, "req2": ["-"] + REQ_KINDS, "resp": RESP_KINDS[:4] + RESP_KINDS[5:] if q else RESP_KINDS, "stream": [False, True]}

    def desc(c):
        return (f"first request in {c['req1']}, pipelined second in {c['req2']}, response kind per request in {c['resp']}, body streaming in {c['stream']}; "
                + (f"every choice of <= {c['ccuts']} cut points of the client stream and <= {c['scuts']} cut points of each response (all byte positions), "
                   + ("(first response only) " if c.get("scut_first_only") else "") + "every interleaving of client and server segment arrival consistent with the causal server model" if "ccuts" in c else
                   "each side delivered byte by byte or whole, interleaving server-first / client-first / alternating"))

    obs = []
    for c in (single, pair, server, both):
        obs.append(Symx(c["name"], (lambda cc: lambda X: h_cuts(X, cc))(c), bounds=desc(c), encoded=ENCODED,
                        must_reach=["ran", "response-hook"] + (["client-cut"] if c["ccuts"] else []) + (["server-cut"] if c["scuts"] else [])
                        + (["two-flows-complete", "client-segment-after-server-segment"] if c is pair or c is both else []), parallel_depth=3))
    obs.append(Symx(bw["name"], lambda X: h_bytewise(X, bw), bounds=desc(bw), encoded=ENCODED, must_reach=["ran", "response-hook", "two-flows-complete"], parallel_depth=3))
    sp = {"name": "server-surplus", "req1": ["get"] if q else ["get", "post-cl"], "resp1": ["cl+surplus", "chunked+surplus"] + ([] if q else ["304+surplus"]),
          "stream": [False, True], "scuts": 2}
    obs.append(Symx(sp["name"], lambda X: h_surplus(X, sp),
                    bounds=f"non-pipelining client: request 1 in {sp['req1']}, then GET after response 1 arrived; server sends response 1 in {sp['resp1']} "
                           f"(a complete response directly followed by {SURPLUS!r}) cut at every choice of <= 2 byte positions, then a plain response 2; streaming in {sp['stream']}",
                    encoded=ENCODED, must_reach=["ran", "server-cut", "two-flows-complete"], parallel_depth=2))
    return obs
