"""C17 — the certificate store is bounded and never serves a certificate for other names.

The real `CertStore.get_cert / expire / add_cert / asterisk_forms` (and `_fix_legacy_sans`) run natively on
solver-enumerated inputs (engine symx, selectors only: names are composed label by label from {a,b,c}); the one
stubbed step is `certs.dummy_cert`, replaced by a record `(cn, sans, serial)` so that "which names was this
certificate generated for" is observable without X.509 (certificate content is C16).

  inductive-step-*   arbitrary pre-state satisfying the representation invariant (queue length 0/1/CAP-1/CAP built
                     directly, an optional pre-existing generated entry for the requested or another key at the oldest /
                     newest position, custom registrations made through the real add_cert) -> one get_cert -> invariant,
                     result correctness, immediate repeat.
  histories-*        every sequence of <= k calls (get_cert / add_cert from a menu) from the empty store, with a model
                     of "what was requested / registered" kept by the harness.

Oracle (independent of asterisk_forms): `_wild_match` — pattern == name, or pattern '*', or pattern '*.S' and name ends
with '.S' with a non-empty prefix.  A returned entry must be (a) a custom entry one of whose registered names (names
argument, certificate CN, certificate SANs) matches one of the requested names, or (b) a generated entry whose record
is exactly (cn, sans).  Bound: len(expire_queue) <= STORE_CAP, generated keys in `certs` are exactly the queued
entries.  Repeat: the same request immediately afterwards — and later, as long as the entry is still queued and no
registration happened in between — returns the identical object.
"""
import warnings

from cryptography import x509
from mitmproxy import certs

from vf.ob import Symx

LEVEL = "model_checking"
ASSUMPTIONS = [
    "certs.dummy_cert is replaced by a record stub (cn, sans, serial) with Cert-like .cn/.altnames and identity equality (distinct serials); like the real function it leaves cert.cn None for common names of 64+ characters",
    "the store's wildcard rule is read as: '*.S' covers every name with at least one label in front of S (any depth), '*' covers everything "
    "(that is what --certs documents); the oracle is the 6-line matcher _wild_match, not asterisk_forms",
    "pre-states of the inductive step are built by writing certs / expire_queue directly (generated part) and by the real add_cert (custom part)",
]
OUTSIDE = ["certificate content (C16)", "organization / CRL URL differing between two requests for the same names (the cached certificate is reused)",
           "names outside labels {a,b,c} x <=3 labels, IP SANs other than the one menu entry", "re-registering an entry that get_cert generated via add_cert"]
ENCODED = ["mitmproxy.certs:CertStore.get_cert", "mitmproxy.certs:CertStore.expire", "mitmproxy.certs:CertStore.add_cert",
           "mitmproxy.certs:CertStore.asterisk_forms", "mitmproxy.certs:_fix_legacy_sans"]

LABELS = ["a", "b", "c"]
_serial = [0]


class RecCert:
    """record standing in for certs.Cert"""

    def __init__(self, cn, sans, generated):
        _serial[0] += 1
        self.serial = _serial[0]
        self.cn = cn
        self.sans = x509.GeneralNames(list(sans))
        self.generated = generated
        self._cert = self

    @property
    def altnames(self):
        return self.sans

    def fingerprint(self):
        return b"rec-%d" % self.serial

    def __eq__(self, other):
        return isinstance(other, RecCert) and other.serial == self.serial

    def __hash__(self):
        return hash(self.serial)

    def __repr__(self):
        return f"<Rec#{self.serial} cn={self.cn!r} sans={[str(s.value) for s in self.sans]} {'gen' if self.generated else 'custom'}>"


LONG = "l" * 62  # LONG + ".a" is a legal host name of 64 characters: too long for an X.509 CommonName


def _stub_dummy_cert(privkey, cacert, commonname, sans, organization=None, crl_url=None):
    # mirrors the one documented rule of certs.dummy_cert the store can observe: a common name of 64+ characters
    # cannot be put into the subject, the generated certificate then has no CN (cert.cn is None)
    cert_cn = commonname if commonname is not None and len(commonname) < 64 else None
    c = RecCert(cert_cn, sans, True)
    c.requested_cn = commonname
    return c


_KEY = object()


def _new_store(cap):
    if cap == certs.CertStore.STORE_CAP:
        cls = certs.CertStore
    else:
        cls = type("SmallCapStore", (certs.CertStore,), {"STORE_CAP": cap})
    return cls(_KEY, RecCert("ca", [], False), None, b"", b"")


def _wild_match(pat: str, name: str) -> bool:
    if pat == "*" or pat == name:
        return True
    if pat.startswith("*."):
        suf = pat[1:]
        return len(name) > len(suf) and name.endswith(suf)
    return False


def _gn(v):
    if v and v[0].isdigit():
        import ipaddress

        return x509.IPAddress(ipaddress.ip_address(v))
    return x509.DNSName(v)


def _name(X, tag, max_labels=3):
    n = X.choose(f"{tag}.labels", max_labels) + 1
    # the first label may be the 62-character one (only with at least one more label, so the name has 64+ characters)
    first = X.choose(f"{tag}.l", LABELS + [LONG]) if n >= 2 else X.choose(f"{tag}.l", LABELS)
    return ".".join([first] + [X.choose(f"{tag}.l", LABELS) for _ in range(n - 1)])


def _pattern(X, tag):
    kind = X.choose(f"{tag}.kind", ["exact", "wild", "star"])
    if kind == "star":
        return "*"
    if kind == "wild":
        return "*." + _name(X, tag, 2)
    return _name(X, tag, 3)


class Model:
    """what the harness itself knows: which patterns each custom entry was registered under"""

    def __init__(self):
        self.patterns = {}  # id(entry) -> set[str]
        self.customs = {}  # id(entry) -> entry
        self.epoch = 0
        self.last = {}

    def register(self, store, cn, sans, names):
        c = RecCert(cn, [_gn(s) for s in sans], False)
        e = certs.CertStoreEntry(c, _KEY, None, [c])
        store.add_cert(e, *names)
        self.customs[id(e)] = e
        self.patterns.setdefault(id(e), set()).update(([cn] if cn else []) + list(sans) + list(names))
        self.epoch += 1
        return e


def _check_invariant(X, store, cap, where):
    q = store.expire_queue
    X.check(len(q) <= cap, "C17/bound/expire-queue", f"{where}: len(expire_queue)={len(q)} > STORE_CAP={cap}")
    gen = [(k, v) for k, v in store.certs.items() if isinstance(k, tuple)]
    X.check(len(gen) <= cap, "C17/bound/generated-keys", f"{where}: {len(gen)} generated keys in certs > STORE_CAP={cap}")
    X.check(len({id(e) for e in q}) == len(q), "C17/invariant/queue-duplicates", f"{where}: an entry is queued twice")
    X.check({id(v) for _, v in gen} == {id(e) for e in q}, "C17/invariant/queue-certs-disagree",
            f"{where}: generated entries reachable through certs ({len(gen)}) are not exactly the queued entries ({len(q)})")
    for (kc, ks), v in gen:
        X.check(getattr(v.cert, "generated", False) and getattr(v.cert, "requested_cn", v.cert.cn) == kc and v.cert.sans == ks, "C17/invariant/generated-key-mismatch",
                f"{where}: key {(kc, [str(s.value) for s in ks])} maps to {v.cert!r}")
    for k, v in store.certs.items():
        if isinstance(k, str):
            X.check(not getattr(v.cert, "generated", True), "C17/invariant/generated-under-name", f"{where}: generated entry stored under name {k!r}")


def _request(X, store, model, cap, cn, sans, sans_form="list"):
    """one real get_cert call + all result checks + immediate repeat"""
    san_objs = [_gn(s) for s in sans]

    def mk():
        if sans_form == "generalnames":
            return x509.GeneralNames([_gn(s) for s in sans])
        if sans_form == "legacy-str" and sans:
            return list(sans)
        return [_gn(s) for s in sans]

    req_names = ([cn] if cn else []) + list(sans)
    key = (cn, tuple(sans))
    queued_before = {id(e) for e in store.expire_queue}
    with warnings.catch_warnings():
        warnings.simplefilter("ignore")
        e = store.get_cert(cn, mk())
    what = f"get_cert({cn!r}, {list(sans)})"
    c = e.cert
    if getattr(c, "generated", None) is True:
        X.reach("generated")
        X.check(getattr(c, "requested_cn", c.cn) == cn and list(c.sans) == san_objs, "C17/serves-other-names/generated",
                f"{what} returned a certificate generated for cn={c.cn!r} sans={[str(s.value) for s in c.sans]}")
    else:
        X.reach("custom")
        X.check(id(e) in model.customs, "C17/serves-other-names/unknown-entry", f"{what} returned an entry that was never registered: {c!r}")
        pats = model.patterns[id(e)]
        ok = any(_wild_match(p, n) for p in pats for n in req_names)
        if ok and not any(p in req_names for p in pats):
            X.reach("custom-by-wildcard")
        X.check(ok, "C17/serves-other-names/custom", f"{what} returned custom entry registered as {sorted(pats)}, none matches {req_names}")
    _check_invariant(X, store, cap, "after " + what)
    # cached repeat (history): same names asked before, entry still cached, no registration in between
    prev = model.last.get(key)
    if prev is not None:
        pe, pepoch = prev
        still = (id(pe) in model.customs) or (id(pe) in queued_before)
        if pepoch == model.epoch and still:
            X.reach("cached-repeat")
            X.check(e is pe, "C17/repeat/cached", f"{what}: earlier result {pe.cert!r} is still cached but {c!r} was returned")
    # immediate repeat with freshly built (equal, not identical) arguments
    qlen = len(store.expire_queue)
    with warnings.catch_warnings():
        warnings.simplefilter("ignore")
        e2 = store.get_cert(cn, mk())
    X.check(e2 is e, "C17/repeat/immediate", f"{what} twice in a row: {c!r} then {e2.cert!r}")
    X.check(len(store.expire_queue) == qlen, "C17/repeat/immediate-grows", f"{what} repeated: queue grew from {qlen} to {len(store.expire_queue)}")
    model.last[key] = (e, model.epoch)
    return e


def _opt(X, name, menu, default):
    """selector that only exists in the thorough tier; a witness recorded in the quick tier replays with the quick value"""
    try:
        return X.choose(name, menu)
    except KeyError:
        return default


def _with_stub(fn):
    def run(X):
        saved = certs.dummy_cert
        certs.dummy_cert = _stub_dummy_cert
        try:
            fn(X)
        finally:
            certs.dummy_cert = saved

    return run


STATES = ["empty", "one", "cap-1", "cap", "cap+hit-oldest", "cap+hit-newest", "cap+other-oldest"]


def h_step(X, cap, thorough):
    store = _new_store(cap)
    model = Model()
    name = _name(X, "req")
    via = X.choose("via", ["cn", "san"])
    cn = name if via != "san" else None
    sans = [name] if via != "cn" else []
    quick_form = "list" if via == "cn" else "generalnames"
    sans_form = _opt(X, "sans_form", ["list", "generalnames", "legacy-str"], quick_form) if (sans and thorough) else quick_form
    ncustom = X.choose("customs", 3 if thorough else 2)
    state = X.choose("state", STATES)  # same menu in both tiers (witnesses replay in either); the tier prunes it
    if thorough:  # all queue shapes without custom entries, three representative ones with them
        X.assume(ncustom == 0 or state in (STATES[0], STATES[3], STATES[4]))
    else:
        X.assume(state in STATES[:1] + STATES[3:])
    # --- pre-state: generated part, written directly
    L = {"empty": 0, "one": 1, "cap-1": cap - 1}.get(state, cap)
    fill = []
    for i in range(L):
        k = (f"f{i}.z", x509.GeneralNames([x509.DNSName(f"f{i}.z")]))
        fill.append(k)
    if state in ("cap+hit-oldest", "cap+hit-newest"):
        fill[0 if state.endswith("oldest") else -1] = (cn, x509.GeneralNames([_gn(s) for s in sans]))
    elif state == "cap+other-oldest":
        # the oldest entry (the one the step must evict) was generated for a 64-character name: its certificate has no CN
        fill[0] = (LONG + ".c", x509.GeneralNames([x509.DNSName(LONG + ".c")]))
    pre_hit = None
    for kc, ks in fill:
        e = certs.CertStoreEntry(_stub_dummy_cert(None, None, kc, ks), _KEY, None, [])
        store.certs[(kc, ks)] = e
        store.expire_queue.append(e)
        if (kc, ks) == (cn, x509.GeneralNames([_gn(s) for s in sans])):
            pre_hit = e
    # --- pre-state: custom registrations through the real add_cert
    for j in range(ncustom):
        pat = _pattern(X, f"pat{j}") if j == 0 else X.choose("pat1", ["*", "*.c", "a", "b.a"])
        how = "names-arg" if pat == "*" else ("cert-san" if pat.startswith("*.") else "cert-cn")  # quick: route fixed per pattern shape
        if thorough and ncustom == 1:
            how = _opt(X, f"how{j}", ["names-arg", "cert-cn", "cert-san"], how)
        if how == "names-arg":
            model.register(store, None, [], [pat])
        elif how == "cert-cn":
            model.register(store, pat, [], [])
        else:
            model.register(store, None, [pat], [])
    _check_invariant(X, store, cap, "pre-state")
    oldest = store.expire_queue[0] if store.expire_queue else None
    e = _request(X, store, model, cap, cn, sans, sans_form)
    X.reach("stepped")
    if getattr(e.cert, "generated", False):
        if pre_hit is not None:
            X.reach("hit-pregenerated")
            X.check(e is pre_hit, "C17/repeat/pre-generated", "a generated entry for exactly these names was cached but a different one was returned")
        elif L == cap and cap > 0:
            X.reach("evicted")
            X.check(all(q is not oldest for q in store.expire_queue), "C17/bound/evicts-wrong-entry", "the oldest generated entry was not the one evicted")
    elif pre_hit is not None:
        X.check(any(q is pre_hit for q in store.expire_queue), "C17/invariant/lost-entry", "cached generated entry vanished on a custom hit")


REQS = [("a.b", []), (None, ["a.b"]), ("c.a.b", ["a.b"]), ("b", []), ("a.b", ["b"]), ("c.b", ["10.0.0.1"])]
ADDS = [(None, [], ["*.b"]), (None, [], ["a.b"]), ("b", ["c.a.b"], []), (None, [], ["*"])]


def h_hist(X, k, cap, prefill):
    store = _new_store(cap)
    model = Model()
    for i in range(prefill):  # distinct filler requests through the real get_cert
        store.get_cert(f"f{i}.z", [x509.DNSName(f"f{i}.z")])
    if prefill:
        _check_invariant(X, store, cap, "after prefill")
    ngen = 0
    for step in range(k):
        op = X.choose("op", len(REQS) + len(ADDS) + 1)
        if op == len(REQS) + len(ADDS):
            break
        if op < len(REQS):
            cn, sans = REQS[op]
            before = len(store.expire_queue)
            e = _request(X, store, model, cap, cn, sans)
            if getattr(e.cert, "generated", False) and before == cap:
                X.reach("at-capacity")
        else:
            cn, sans, names = ADDS[op - len(REQS)]
            model.register(store, cn, sans, names)
            _check_invariant(X, store, cap, f"after add_cert(cn={cn!r}, sans={sans}, names={names})")
            X.reach("registered")
    X.reach("end")


def obligations(tier):
    real = certs.CertStore.STORE_CAP
    thorough = tier != "quick"
    stubs = ["certs.dummy_cert -> record stub (cn, sans, serial)"]
    small = 3
    step_bounds = ("requested name: every name of <=3 labels over {a,b,c} (39), passed as CN / single SAN" +
                   (" (SAN as list, GeneralNames or legacy list[str])" if thorough else "") + "; pre-state: queue length " +
                   ("0, 1, CAP-1, CAP (0, CAP when custom entries exist)" if thorough else "0, CAP") + ", optional pre-generated entry for the same key at the oldest/newest slot or another key at the oldest slot; "
                   "custom registrations: " + ("0-2" if thorough else "0-1") + " (first: any of 39 exact names, 12 '*.suffix' forms, '*'; registered via names argument, certificate CN or certificate SAN" + ("" if thorough else ", route fixed per pattern shape") + ")")
    k_small = 4 if not thorough else 5
    obs = [
        Symx("inductive-step-smallcap", _with_stub(lambda X: h_step(X, small, thorough)), bounds=f"STORE_CAP={small} (subclass); " + step_bounds,
             encoded=ENCODED, must_reach=["stepped", "generated", "custom", "custom-by-wildcard", "evicted", "hit-pregenerated"], stubs=stubs, parallel_depth=4),
        Symx("inductive-step-realcap", _with_stub(lambda X: h_step(X, real, thorough)), bounds=f"STORE_CAP={real} (the real class); " + step_bounds,
             encoded=ENCODED, must_reach=["stepped", "generated", "custom", "custom-by-wildcard", "evicted", "hit-pregenerated"], stubs=stubs, parallel_depth=4),
        Symx("histories-smallcap", _with_stub(lambda X: h_hist(X, k_small, 2, 0)),
             bounds=f"every sequence of <= {k_small} calls over {len(REQS)} get_cert requests {REQS} and {len(ADDS)} add_cert registrations {ADDS}, STORE_CAP=2 (subclass), from the empty store",
             encoded=ENCODED, must_reach=["end", "generated", "custom", "registered", "cached-repeat", "at-capacity"], stubs=stubs, parallel_depth=2),
    ]
    if thorough:
        obs.append(Symx("histories-realcap", _with_stub(lambda X: h_hist(X, 4, real, real - 1)),
                        bounds=f"{real - 1} distinct filler requests through the real get_cert, then every sequence of <= 4 calls from the same menu (total <= STORE_CAP+3 calls), real STORE_CAP={real}",
                        encoded=ENCODED, must_reach=["end", "generated", "custom", "registered", "cached-repeat", "at-capacity"], stubs=stubs, parallel_depth=2))
    return obs
