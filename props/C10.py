"""C10 — idle connections time out, but never while a hook is pending.

The real `TimeoutWatchdog.watch()` coroutine is driven BY HAND (`coro.send`): `asyncio` and `time` in
`mitmproxy.proxy.server`'s namespace are replaced, for the duration of one path, by harness objects
(`sleep` -> an awaitable that hands ("sleep", d) to the harness, `Event` -> an event whose waiter is
resumed by the harness, `time.time` -> the harness clock).  Clock values, the timeout T and every clock
instant are *symbolic ints* (milliseconds; the code only adds, subtracts and compares them — they are z3
Int-sort terms, `vf.symlin`, decided by linear arithmetic), so one path covers every timing that takes
the same branches.  The script (which step comes next) is a
solver-enumerated selector.  Steps: advance the clock, activity (`register_activity`, what
`server_event` does), hook-enter (`disarm().__enter__`, what `handle_hook` does — preceded by an
activity step or not: both occur in server.py), hook-exit, resume the watchdog task.

Monitor (written from the property sentence, independent of the watchdog's fields):
  safety    callback fired  =>  no hook pending at that instant  AND  now - max(last activity, last
            hook exit) >= T   (weaker reading at the boundary idle == T)
  liveness  after the script every pending hook completes, the clock moves to an instant later than
            max(last activity, last hook exit) + T and the watchdog task is resumed (at its deadline or
            later): the callback must fire.
"""
import asyncio as _real_asyncio

from vf import symlin
from vf.ob import Symx

LEVEL = "model_checking"
ASSUMPTIONS = [
    "asyncio.sleep / asyncio.Event / time.time in mitmproxy.proxy.server's namespace are replaced by harness awaitables and a harness clock; "
    "Event semantics as documented: wait() returns at once if set, otherwise the waiter is resolved by set() and resumed later even if "
    "clear() was called in between",
    "time is integer milliseconds (symbolic); the code only adds/subtracts/compares time values",
    "environment 'general': the watchdog task may be resumed at its deadline or any time later, other events may be processed in between "
    "(asyncio gives no upper bound on timer lateness); environment 'disciplined': every hook start is preceded by register_activity at the "
    "same instant and the task is resumed with zero lateness",
    "ProxyConnectionHandler.handle_hook is represented by its `with self.timeout_watchdog.disarm():` shape (enter ... exit)",
]
OUTSIDE = ["float rounding of time.time()", "task cancellation (watch.cancel()) and what on_timeout does with the client handler",
           "scripts longer than the stated bound, more than 3 hooks pending at once"]
ENCODED = ["mitmproxy.proxy.server:TimeoutWatchdog.__init__", "mitmproxy.proxy.server:TimeoutWatchdog.register_activity",
           "mitmproxy.proxy.server:TimeoutWatchdog.watch", "mitmproxy.proxy.server:TimeoutWatchdog.disarm"]
STUBS = ["mitmproxy.proxy.server.asyncio -> harness shim (sleep, Event, CancelledError)", "mitmproxy.proxy.server.time -> harness clock"]

TMAX = 10 ** 6  # ms
CLOCK_MAX = 10 ** 7  # ms; every instant of the script is a symbolic value in [0, CLOCK_MAX]
NEST = 3


class _Yield:
    def __init__(self, what):
        self.what = what

    def __await__(self):
        r = yield self.what
        return r


class _Env:
    """clock + asyncio shim + bookkeeping of the watchdog task"""

    def __init__(self, X):
        self.X = X
        self.now = symlin.declare(X, "t", 0, CLOCK_MAX)
        env = self

        class Event:
            def __init__(self):
                self._v = False
                self.resolved = False  # a waiter has been resolved by set() and not yet resumed

            def set(self):
                self._v = True
                if env.state == "wait":
                    self.resolved = True

            def clear(self):
                self._v = False

            def is_set(self):
                return self._v

            async def wait(self):
                if self._v:
                    return True
                await _Yield(("wait", self))
                return True

        class AsyncioShim:
            CancelledError = _real_asyncio.CancelledError

            @staticmethod
            def sleep(d, result=None):
                return _Yield(("sleep", d))

        AsyncioShim.Event = Event

        class TimeShim:
            @staticmethod
            def time():
                return env.now

        self.asyncio_shim, self.time_shim = AsyncioShim, TimeShim
        self.state = "new"  # new | sleep | wait | done
        self.deadline = None
        self.slept_at = None
        self.event = None
        self.fired_at = None
        self.fired_pending = None
        self.coro = None

    def resume(self):
        """run the watchdog task until it blocks again"""
        try:
            what = self.coro.send(None)
        except StopIteration:
            self.state = "done"
            return
        if what[0] == "sleep":
            self.state = "sleep"
            self.slept_at = self.now
            self.deadline = self.now + what[1]
        else:
            self.state = "wait"
            self.event = what[1]
            self.event.resolved = False


def _run(X, K, disciplined):
    from mitmproxy.proxy import server

    env = _Env(X)
    T = symlin.declare(X, "T", 1, TMAX)
    saved = (server.asyncio, server.time)
    server.asyncio, server.time = env.asyncio_shim, env.time_shim
    try:
        pending = []  # context managers of hooks in progress (oracle's own count = len(pending))
        ref = {"last": env.now}  # oracle: max(last activity, last hook exit); starts at connection start

        async def callback():
            env.fired_at = env.now
            env.fired_pending = len(pending)

        wd = server.TimeoutWatchdog(T, callback)
        env.coro = wd.watch()

        def judge_fired(where):
            if env.fired_at is None:
                return
            X.reach("fired")
            X.check(env.fired_pending == 0, "C10/watch/fired-while-hook-pending",
                    f"timeout callback fired while {env.fired_pending} hook(s) pending ({where}); the last hook started "
                    f"{'with' if ref.get('enter_with_activity') else 'without'} a register_activity at the same instant")
            idle = env.fired_at - ref["last"]
            # boundary: the sentence does not say whether idle == T already counts as "no activity for the timeout";
            # weaker reading: firing at idle == T is allowed (the code itself only fires at idle > T)
            X.check(idle >= T, "C10/watch/fired-early", f"timeout callback fired after an idle time < timeout ({where})")

        def activity():
            wd.register_activity()
            ref["last"] = env.now

        def watchdog_due():
            """the task can be resumed now (general: deadline passed; disciplined: exactly at the deadline)"""
            if env.state == "new":
                return True
            if env.state == "wait":
                return env.event.resolved
            if env.state == "sleep":
                if disciplined:
                    # zero lateness: the timer fires at max(deadline, instant it was armed) exactly
                    X.assume(env.now >= env.deadline)
                    return True
                X.assume(env.now >= env.deadline)
                return True
            return False

        last_was_activity = False
        for i in range(K):
            kinds = ["advance", "activity", "enter", "exit", "watchdog", "stop"]
            s = X.choose("step", kinds)
            if s == "stop":
                break
            if s == "advance":
                # a later instant: a fresh symbol ordered after the current one (keeps every clock value a plain
                # symbol, so the solver sees difference constraints instead of ever-growing sums of deltas)
                new = symlin.declare(X, "t", 0, CLOCK_MAX)
                X.assume(new > env.now)
                if disciplined:
                    # zero lateness: time may not pass a due timer / a resolved waiter without the task running
                    if env.state == "new" or (env.state == "wait" and env.event.resolved):
                        X.assume(False)
                    if env.state == "sleep":
                        X.assume(new <= env.deadline)
                env.now = new
                last_was_activity = False
            elif s == "activity":
                X.assume(not last_was_activity)  # two activities at one instant = one
                activity()
                last_was_activity = True
                continue
            elif s == "enter":
                X.assume(len(pending) < NEST)
                if disciplined:
                    X.assume(last_was_activity)
                ref["enter_with_activity"] = last_was_activity
                cm = wd.disarm()
                cm.__enter__()
                pending.append(cm)
                X.reach("hook-enter")
                if len(pending) > 1:
                    X.reach("overlapping-hooks")
            elif s == "exit":
                X.assume(len(pending) > 0)
                # hooks are independent asyncio tasks: they may complete in any order, not only LIFO
                cm = pending.pop(X.choose("which_hook", len(pending)) if len(pending) > 1 else 0)
                cm.__exit__(None, None, None)
                ref["last"] = env.now
                X.reach("hook-exit")
            elif s == "watchdog":
                X.assume(env.state != "done")
                X.assume(watchdog_due())
                was = env.state
                env.resume()
                if was == "sleep":
                    X.reach("woke-from-sleep")
                if env.state == "wait":
                    X.reach("blocked-on-hook")
                judge_fired("during the script")
                if env.state == "done":
                    X.reach("fired-in-script")
                    return
            last_was_activity = False

        # ---- liveness epilogue: all hooks complete, then a long idle period
        while pending:
            pending.pop().__exit__(None, None, None)
            ref["last"] = env.now
        if env.state == "done":
            X.reach("fired-in-epilogue")
            return
        target = symlin.declare(X, "t_idle", 0, CLOCK_MAX + TMAX + 1)
        X.assume(target > ref["last"] + T)
        X.assume(target >= env.now)
        env.now = target
        for _ in range(4):
            if env.state == "done":
                break
            if env.state == "wait":
                X.check(env.event.resolved, "C10/watch/stuck-without-hook",
                        "no hook pending, yet the watchdog waits on can_timeout which nobody will set")
            elif env.state == "sleep":
                X.check(env.deadline <= env.now, "C10/watch/oversleeps",
                        "idle for longer than the timeout, no hook pending, but the watchdog's timer is not due yet")
            env.resume()
            judge_fired("epilogue")
        X.check(env.state == "done" and env.fired_at is not None, "C10/watch/not-fired-after-idle",
                "idle for longer than the timeout with no hook pending and the watchdog resumed 4 times: callback never fired")
        X.reach("fired-in-epilogue")
    finally:
        server.asyncio, server.time = saved
        if env.coro is not None:
            env.coro.close()


def h_general(X, K):
    _run(X, K, False)


def h_disciplined(X, K):
    _run(X, K, True)


def h_handle_hook(X):
    """the REAL ProxyConnectionHandler.handle_hook coroutine (mode_servers.py) under a real asyncio loop: while a
    hook is being handled -- including the whole time an intercepted flow waits for the user -- the connection's
    real TimeoutWatchdog must stay disarmed, and it must be re-armed (idle period restarted) when the last one ends"""
    import asyncio

    from mitmproxy.proxy import mode_servers, server
    from mitmproxy.proxy.layers import http as H
    from mitmproxy.test import tflow

    n_hooks = X.choose("concurrent_hooks", [1, 2])
    plan = [dict(intercept=X.boolean("intercepted"), slow=X.choose("addon_yields", [0, 2])) for _ in range(n_hooks)]
    resume_order = X.choose("resume_order", ["fifo", "lifo"]) if n_hooks == 2 else "fifo"
    problems = []

    async def main():
        wd = server.TimeoutWatchdog(3600, lambda: asyncio.sleep(0))
        flows = [tflow.tflow() for _ in plan]
        for f in flows:
            f.live = True

        class _Addons:
            async def handle_lifecycle(self, hook):
                (data,) = hook.args()
                i = flows.index(data)
                for _ in range(plan[i]["slow"]):
                    await asyncio.sleep(0)
                if plan[i]["intercept"]:
                    data.intercept()

        class _Master:
            addons = _Addons()

        class _Handler:  # the two attributes handle_hook uses
            timeout_watchdog = wd
            master = _Master()

        h = _Handler()
        tasks = [asyncio.ensure_future(mode_servers.ProxyConnectionHandler.handle_hook(h, H.HttpRequestHook(f))) for f in flows]
        for _ in range(6):
            await asyncio.sleep(0)
            pending = [t for t in tasks if not t.done()]
            if pending and (wd.can_timeout.is_set() or wd.blocker == 0):
                problems.append(f"watchdog armed (can_timeout={wd.can_timeout.is_set()}, blocker={wd.blocker}) while {len(pending)} hook(s) pending")
        held = [i for i, t in enumerate(tasks) if not t.done()]
        if held:
            X.reach("held-by-intercept")
        for i in (held if resume_order == "fifo" else held[::-1]):
            flows[i].resume()
            for _ in range(3):
                await asyncio.sleep(0)
            still = [t for t in tasks if not t.done()]
            if still and (wd.can_timeout.is_set() or wd.blocker == 0):
                problems.append(f"watchdog re-armed while {len(still)} hook(s) still pending")
        for _ in range(3):
            await asyncio.sleep(0)
        if not all(t.done() for t in tasks):
            problems.append("handle_hook did not finish after resume")
        elif not wd.can_timeout.is_set() or wd.blocker != 0:
            problems.append(f"watchdog not re-armed after the last hook (can_timeout={wd.can_timeout.is_set()}, blocker={wd.blocker})")
        for t in tasks:
            if t.done() and t.exception():
                problems.append(f"handle_hook raised {t.exception()!r}")

    asyncio.run(main())
    X.reach("ran")
    X.check(not problems, "C10/handle-hook/" + ("armed-while-pending" if any("pending" in p for p in problems) else "not-rearmed"),
            f"plan={plan} resume={resume_order}: " + "; ".join(problems[:3]))


def obligations(tier):
    k1, k2 = (6, 8) if tier == "quick" else (8, 10)
    alpha = "{advance clock to a later symbolic instant, register_activity, hook-enter, hook-exit, resume watchdog task}"
    return [
        Symx("watchdog-schedule", lambda X: h_general(X, k1),
             bounds=f"every script of <= {k1} steps over {alpha}, <= {NEST} hooks pending at once; T in [1,{TMAX}] ms, every instant a symbolic int in [0,{CLOCK_MAX}] ms "
                    f"(strictly increasing); watchdog resumed at its deadline or any later instant; liveness epilogue with symbolic idle time",
             encoded=ENCODED, stubs=STUBS, parallel_depth=3,
             must_reach=["fired", "hook-enter", "hook-exit", "overlapping-hooks", "woke-from-sleep", "blocked-on-hook", "fired-in-epilogue"]),
        Symx("watchdog-schedule-disciplined", lambda X: h_disciplined(X, k2),
             bounds=f"every script of <= {k2} steps over {alpha} in which every hook-enter directly follows a register_activity at the same instant "
                    f"and the watchdog task is resumed with zero lateness; same symbolic times",
             encoded=ENCODED, stubs=STUBS, parallel_depth=3,
             must_reach=["fired", "hook-enter", "hook-exit", "overlapping-hooks", "woke-from-sleep", "blocked-on-hook", "fired-in-epilogue"]),
        Symx("handle-hook-disarms", h_handle_hook,
             bounds="real ProxyConnectionHandler.handle_hook under a real asyncio loop: 1-2 concurrent hooks x intercepted or not x addon yields 0/2 times x resume order; real TimeoutWatchdog observed at every scheduling point",
             encoded=ENCODED + ["mitmproxy.proxy.mode_servers:ProxyConnectionHandler.handle_hook"], must_reach=["ran", "held-by-intercept"],
             stubs=["master.addons.handle_lifecycle -> harness addon (intercepts or not)"]),
    ]
