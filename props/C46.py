"""C46 — mitmweb requires authentication and blocks cross-site state changes (Python-level guards only).

  auth-wrapper      (symx) the real `AuthRequestHandler.__init_subclass__` wraps the verbs of a handler class defined
                           by the harness; the real `_require_auth` wrapper, the real `current_user` / `get_current_user`
                           and the real `WebAuth.is_valid_password` (plaintext branch) run on an instance created without
                           tornado.  Authorization header shape, `token` argument, cookie validity and verb are
                           solver-enumerated.  Oracle: nothing presented contains the secret and the session cookie is not
                           valid  =>  status 403, the verb body did not run, nothing was returned, no session cookie issued.
  route-table       (smt)  the route table of a real `Application` object (tornado's router, introspected) and the
                           `handlers` literal lifted from the current source agree; a finite table (route x verb) of
                           "implemented / guarded" facts is handed to z3: no implemented verb of any route is unguarded
                           (guarded = class derives from AuthRequestHandler, the attribute is the `_require_auth` wrapper
                           around the class's own function, `get_current_user` is the real one); the WebSocket route's
                           upgrade entry point `get` (the only way to `open` / `on_message`) is guarded; state-changing
                           verbs keep `RequestHandler.prepare`.  `xsrf_cookies=True` is lifted from the source and
                           compared with the live settings.  Fails closed (exit 3) if an anchor moved.
  cross-site-guard  (symx) the real `RequestHandler.prepare` on method x Sec-Fetch-Site (name case, value) from a menu:
                           unsafe method with a value outside {same-origin, none} => an exception carrying 403 is raised
                           (tornado then skips the verb).
"""
import ast
import inspect
from types import SimpleNamespace

import z3

from vf import smt
from vf.ob import Smt, Symx

LEVEL = "model_checking"
ASSUMPTIONS = [
    "header values are what tornado's parser can deliver (tornado.httputil.HTTPHeaders rejects control characters and strips surrounding whitespace), "
    "so the menus contain no leading/trailing blanks",
    "tornado is trusted: routing (a request reaches exactly the verb attribute of the routed class, after check_xsrf_cookie and prepare()), "
    "the 405 answer for verbs left at _unimplemented_method, signed-cookie HMAC verification (get_signed_cookie is a stub returning the "
    "cookie value or None), the XSRF token comparison (only `xsrf_cookies=True` is checked), WebSocketHandler.get being the only path to open/on_message",
    "argon2 verification is trusted; only the plaintext branch of WebAuth.is_valid_password (hmac.compare_digest) is executed",
    "WebAuth.auth_cookie_name is replaced by a constant name in the kernel (it only formats the port into the cookie name)",
    "Application is built with a stub master exposing the real WebAuth addon (no WebMaster / event loop needed for the route table)",
]
OUTSIDE = [
    "the three tornado StaticFileHandler routes (/static/, /favicon.ico, /robots.txt) that tornado adds for static_path serve the bundled "
    "JS/CSS assets without authentication; they hold no state and no flow data and are allow-listed by handler class and directory",
    "the HTTP-level status of a refused cross-site request: prepare raises tornado.httpclient.HTTPError(403), which tornado.web does not "
    "recognise, so the client sees 500 (refused, verb skipped) — the sentence only asks for refusal",
    "the content of the login page rendered by IndexHandler.auth_fail", "end-to-end HTTP exchange per route x method (covered structurally only)",
]
ENCODED = [
    "mitmproxy.tools.web.app:AuthRequestHandler.__init_subclass__",
    "mitmproxy.tools.web.app:AuthRequestHandler._require_auth",
    "mitmproxy.tools.web.app:AuthRequestHandler.get_current_user",
    "mitmproxy.tools.web.app:RequestHandler.prepare",
    "mitmproxy.tools.web.app:Application.__init__",
    "mitmproxy.tools.web.webaddons:WebAuth.is_valid_password",
]

APP = "mitmproxy/tools/web/app.py"
SECRET = "s3cret-token"
SECRET2 = "p\xe4ssw\xf6rt-token"  # thorough tier: a configured non-ASCII plaintext password


def _auth_headers(SECRET):
    return [
        ("absent", None),
        ("bearer-right", "Bearer " + SECRET),
        ("bearer-wrong", "Bearer wrong"),
        ("bearer-prefix-of-secret", "Bearer " + SECRET[:-1]),
        ("bearer-case-differs", "Bearer " + SECRET.upper()),
        ("bearer-only", "Bearer"),
        ("bearer-two-spaces-wrong", "Bearer  wrong"),
        ("bearer-tab-wrong", "Bearer\twrong"),
        ("basic-wrong", "Basic d3Jvbmc6d3Jvbmc="),
        ("obs-text", "\xff\xfe"),
        ("empty", ""),
        ("lowercase-scheme-right", "bearer " + SECRET),
        ("other-scheme-right", "Basic " + SECRET),
        ("right-plus-suffix", "Bearer " + SECRET + " x"),
        ("bearer-non-ascii", "Bearer p\xe4ssword"),  # header bytes are decoded as latin-1 by tornado
    ]


def _tokens(SECRET):
    return [("absent", None), ("right", SECRET), ("wrong", "wrong"), ("empty", ""), ("prefix", SECRET[:-1]), ("right-with-space", SECRET + " "), ("non-ascii", "p\xe4ss")]


COOKIES = [("absent", None), ("valid", b"y"), ("other-value", b"n"), ("empty", b"")]
VERBS = ["get", "post", "put", "delete", "patch"]


def _fake_handler_cls():
    from mitmproxy.tools.web import app

    class Fake(app.AuthRequestHandler):  # real __init_subclass__ wraps the verbs below
        def get(self):
            self._ran.append("get")
            return "flow data"

        def post(self):
            self._ran.append("post")
            return "state changed"

        def put(self, flow_id="x"):
            self._ran.append("put")
            return "state changed"

        def delete(self):
            self._ran.append("delete")
            return "state changed"

        async def patch(self):
            self._ran.append("patch")
            return "state changed"

        def auth_fail(self, invalid_password):
            self._auth_fail.append(invalid_password)

        # tornado plumbing replaced by recorders (HMAC / argument parsing / response object are trusted)
        def set_status(self, code, reason=None):
            self._status = code

        def get_argument(self, name, default=None, strip=True):
            v = self._args.get(name)
            return default if v is None else v

        def get_signed_cookie(self, name, value=None, max_age_days=31, min_version=None):
            self._cookie_reads.append((name, min_version))
            return self._cookie

        def set_signed_cookie(self, name, value, **kw):
            self._issued.append((name, value))

    return Fake


def h_wrapper(X, SECRET=SECRET):  # noqa: N803
    import tornado.httputil
    from mitmproxy.tools.web import app
    from mitmproxy.tools.web.webaddons import WebAuth

    Fake = _fake_handler_cls()
    verb = X.choose("verb", VERBS)
    hname, hval = X.choose("authorization", _auth_headers(SECRET))
    tname, tval = X.choose("token", _tokens(SECRET))
    cname, cval = X.choose("cookie", COOKIES)

    auth = WebAuth()
    auth._password = SECRET
    h = object.__new__(Fake)
    h._ran, h._auth_fail, h._cookie_reads, h._issued, h._status = [], [], [], [], 200
    h._args = {"token": tval}
    h._cookie = cval
    hdrs = tornado.httputil.HTTPHeaders()
    if hval is not None:
        hdrs.add("Authorization", hval)
    h.request = SimpleNamespace(headers=hdrs)
    h.application = SimpleNamespace(settings={"is_valid_password": auth.is_valid_password, "auth_cookie_name": lambda: "mitmproxy-auth-8081"})

    fn = getattr(Fake, verb)
    X.check(hasattr(fn, "__wrapped__") and fn.__wrapped__.__qualname__.endswith("Fake." + verb), f"C46/auth/verb-not-wrapped/{verb}",
            f"__init_subclass__ left {verb} unwrapped")
    err = ret = None
    try:
        ret = fn(h)
    except Exception as e:  # noqa  (tornado answers 500 and logs a traceback)
        err = e
    if inspect.iscoroutine(ret):
        ret.close()
        ret = "coroutine"
    ran = bool(h._ran) or ret is not None

    cookie_valid = cval == app.AuthRequestHandler.AUTH_COOKIE_VALUE
    knows_secret = (hval is not None and SECRET in hval) or (tval is not None and SECRET in tval)
    desc = f"{verb.upper()} Authorization={hname} token={tname} cookie={cname}" + ("" if SECRET.isascii() else " (non-ASCII web_password)")
    # an exception out of the wrapper is neither an acceptance nor the 403 refusal the sentence asks for
    X.check(err is None, f"C46/auth/refusal-is-server-error/{type(err).__name__}",
            f"{desc}: the auth wrapper raised {type(err).__name__}: {err} -> tornado answers 500 instead of 403 (body ran: {ran})")
    if not cookie_valid and not knows_secret:
        X.reach("must-refuse")
        X.check(not ran, f"C46/auth/body-ran-without-credentials/{hname}/{tname}/{cname}", f"{desc}: handler body ran / returned {ret!r}")
        X.check(h._status == 403, "C46/auth/refusal-not-403", f"{desc}: status {h._status}")
        X.check(not h._issued, "C46/auth/session-cookie-issued-on-refusal", f"{desc}: set_signed_cookie{h._issued}")
        X.check(len(h._auth_fail) == 1, "C46/auth/auth_fail-not-called", f"{desc}: auth_fail calls {h._auth_fail}")
    if ran:
        if cookie_valid:
            X.reach("accepted/cookie")
        elif hval == "Bearer " + SECRET:
            X.reach("accepted/bearer")
        elif tval == SECRET:
            X.reach("accepted/token")
        else:
            X.reach("accepted/other")
            X.note("accepted-other", desc)
        X.check(h._status == 200, "C46/auth/accepted-but-403", f"{desc}: body ran although status is {h._status}")
    else:
        X.reach("refused")
        X.check(h._status == 403, "C46/auth/refusal-not-403", f"{desc}: body skipped but status {h._status}")


SFS_VALUES = [("absent", None), ("same-origin", "same-origin"), ("none", "none"), ("cross-site", "cross-site"), ("same-site", "same-site"),
              ("empty", ""), ("case", "Same-Origin"), ("tab-inside", "same\torigin"), ("two-values", "same-origin,cross-site"), ("obs-text", "\xff\xfe")]
SFS_NAMES = ["Sec-Fetch-Site", "sec-fetch-site", "SEC-FETCH-SITE"]


def h_prepare(X):
    import tornado.httputil
    import tornado.web
    from mitmproxy.tools.web import app

    method = X.choose("method", list(tornado.web.RequestHandler.SUPPORTED_METHODS))
    vname, val = X.choose("sec-fetch-site", SFS_VALUES)
    hdrs = tornado.httputil.HTTPHeaders()
    if val is not None:
        hdrs.add(X.choose("header-name", SFS_NAMES), val)
    h = object.__new__(app.RequestHandler)
    h.request = SimpleNamespace(method=method, headers=hdrs)
    prep = app.RequestHandler.prepare
    X.check(prep.__qualname__ == "RequestHandler.prepare", "C46/xsite/prepare-anchor", "RequestHandler.prepare is not defined on RequestHandler")
    err = None
    try:
        r = prep(h)
        if inspect.isawaitable(r):
            X.fail("C46/xsite/prepare-async", "prepare became a coroutine: harness must be adapted")
    except Exception as e:  # noqa
        err = e
    unsafe = method not in ("GET", "HEAD", "OPTIONS")
    cross = val is not None and val not in ("same-origin", "none")
    desc = f"{method} Sec-Fetch-Site={vname}"
    if unsafe and cross:
        X.reach("must-refuse")
        X.check(err is not None, f"C46/xsite/not-refused/{method}/{vname}", f"{desc}: prepare() returned normally, the state-changing verb would run")
        code = getattr(err, "status_code", getattr(err, "code", None))
        X.check(code == 403, "C46/xsite/refusal-not-403", f"{desc}: raised {type(err).__name__} carrying {code}")
        X.note("exception", f"{type(err).__module__}.{type(err).__name__}")
    elif err is None:
        X.reach("allowed")
    else:
        X.reach("refused-though-not-required")


# ------------------------------------------------------------------------------------------
# structural obligation


def _real_application():
    from mitmproxy.tools.web import app
    from mitmproxy.tools.web.webaddons import WebAuth

    return app.Application(SimpleNamespace(addons={"webauth": WebAuth()}), False)


def _rules(router, out=None):
    out = [] if out is None else out
    for r in router.rules:
        if hasattr(r.target, "rules"):
            _rules(r.target, out)
        else:
            pat = getattr(getattr(r.matcher, "regex", None), "pattern", repr(r.matcher))
            out.append((pat, r.target, dict(r.target_kwargs or {})))
    return out


def _row_facts():
    """one row per (route, verb): facts obtained by introspection of the live classes"""
    import os

    import tornado.web
    import tornado.websocket
    from mitmproxy.tools.web import app

    application = _real_application()
    wrapper_code = app.AuthRequestHandler._require_auth(lambda self: None).__code__
    static_dir = os.path.join(os.path.dirname(os.path.abspath(app.__file__)), "static")
    rows = []
    for pat, cls, kw in _rules(application.default_router):
        if not inspect.isclass(cls):
            rows.append(dict(route=pat, cls=repr(cls), verb="*", implemented=True, guarded=False, unsafe=True, prepare_ok=False, static_ok=False, why="target is not a handler class"))
            continue
        static_ok = cls is tornado.web.StaticFileHandler and os.path.abspath(kw.get("path", "")) == static_dir
        derived = issubclass(cls, app.AuthRequestHandler)
        gcu_ok = derived and cls.get_current_user is app.AuthRequestHandler.get_current_user and "current_user" not in cls.__dict__
        is_ws = issubclass(cls, tornado.websocket.WebSocketHandler)
        for verb in cls.SUPPORTED_METHODS:
            fn = getattr(cls, verb.lower(), None)
            implemented = fn is not tornado.web.RequestHandler._unimplemented_method
            wrapped = getattr(fn, "__code__", None) is wrapper_code and hasattr(fn, "__wrapped__")
            inner = inspect.unwrap(fn) if wrapped else fn
            # the wrapper must sit directly on the function that does the work: its innermost function may not itself
            # be reachable unwrapped under another verb attribute of the class (e.g. `post = get` evaluated after wrapping is fine,
            # both names then hold wrappers)
            unsafe = verb not in ("GET", "HEAD", "OPTIONS")
            if is_ws:
                prepare_ok = not unsafe or not implemented  # the WebSocket route only implements GET (upgrade)
                inner_ok = (verb != "GET") or getattr(inner, "__qualname__", "") == "WebSocketHandler.get"
            else:
                prepare_ok = derived and issubclass(cls, app.RequestHandler) and cls.prepare is app.RequestHandler.prepare
                inner_ok = getattr(inner, "__module__", None) == app.__name__
            rows.append(dict(route=pat, cls=cls.__name__, verb=verb, implemented=implemented, guarded=bool(derived and gcu_ok and wrapped and inner_ok),
                             unsafe=unsafe, prepare_ok=bool(prepare_ok), static_ok=bool(static_ok),
                             why=f"derived={derived} get_current_user_real={gcu_ok} wrapped={wrapped} inner_ok={inner_ok}"))
    return application, rows


def _source_facts():
    """anchors lifted from the current source text (fail closed)"""
    hl = smt.find_assign(APP, "handlers")
    if not isinstance(hl, ast.List) or not hl.elts:
        raise smt.AnchorNotFound("handlers is not a list literal")
    src_routes = []
    for e in hl.elts:
        if not (isinstance(e, ast.Tuple) and len(e.elts) >= 2 and isinstance(e.elts[0], ast.Constant) and isinstance(e.elts[1], ast.Name)):
            raise smt.AnchorNotFound("handlers entry is not (pattern literal, ClassName)")
        src_routes.append((e.elts[0].value, e.elts[1].id))
    init = smt.find_function(APP, "Application.__init__")
    call = next((n for n in ast.walk(init) if isinstance(n, ast.Call) and isinstance(n.func, ast.Attribute) and n.func.attr == "__init__"
                 and isinstance(n.func.value, ast.Call) and getattr(n.func.value.func, "id", "") == "super"), None)
    if call is None:
        raise smt.AnchorNotFound("super().__init__(...) call in Application.__init__")
    kws = {k.arg: k.value for k in call.keywords}
    for need in ("handlers", "xsrf_cookies", "is_valid_password", "cookie_secret"):
        if need not in kws:
            raise smt.AnchorNotFound(f"Application.__init__ keyword {need}")
    for q in ("AuthRequestHandler.__init_subclass__", "AuthRequestHandler._require_auth", "AuthRequestHandler.get_current_user", "RequestHandler.prepare"):
        smt.find_function(APP, q)
    tree = ast.parse(smt.read_source(APP))
    # any later write to the xsrf setting (settings["xsrf_cookies"] = ...) would defeat the keyword
    overwrites = [n for n in ast.walk(tree) if isinstance(n, (ast.Assign, ast.AugAssign, ast.Delete))
                  and any(isinstance(s, ast.Subscript) and isinstance(s.slice, ast.Constant) and s.slice.value == "xsrf_cookies"
                          for t in (n.targets if not isinstance(n, ast.AugAssign) else [n.target]) for s in ast.walk(t))]
    return dict(
        routes=src_routes,
        handlers_kw_is_table=isinstance(kws["handlers"], ast.Name) and kws["handlers"].id == "handlers",
        xsrf_true=isinstance(kws["xsrf_cookies"], ast.Constant) and kws["xsrf_cookies"].value is True,
        xsrf_overwritten=bool(overwrites),
        password_kw=ast.unparse(kws["is_valid_password"]),
    )


def _build_structure():
    application, rows = _row_facts()
    src = _source_facts()
    qs = []
    n = len(rows)
    if n < 20:
        raise smt.AnchorNotFound(f"route table has only {n} (route, verb) rows")
    i = z3.Int("row")
    impl, guarded, static_ok, unsafe, prep = (z3.Function(nm, z3.IntSort(), z3.BoolSort()) for nm in ("implemented", "guarded", "static_ok", "unsafe", "prepare_ok"))
    table = []
    for k, r in enumerate(rows):
        table += [impl(k) == r["implemented"], guarded(k) == r["guarded"], static_ok(k) == r["static_ok"], unsafe(k) == r["unsafe"], prep(k) == r["prepare_ok"]]
    dom = [i >= 0, i < n]

    def rp(pred, what):
        def replay(w):
            _, rows2 = _row_facts()
            r = rows2[w["row"]]
            return bool(pred(r)), f"{r['verb']} {r['route']} -> {r['cls']}: {what} ({r['why']})"
        return replay

    qs.append(smt.Query("every implemented verb of every route is guarded by _require_auth (or is a bundled static asset)",
                        table + dom + [impl(i), z3.Not(guarded(i)), z3.Not(static_ok(i))], key="C46/routes/unguarded-verb", witness_vars=[i],
                        replay=rp(lambda r: r["implemented"] and not r["guarded"] and not r["static_ok"], "implemented but not the auth wrapper")))
    qs.append(smt.Query("every implemented state-changing verb keeps RequestHandler.prepare (Sec-Fetch-Site guard)",
                        table + dom + [impl(i), unsafe(i), z3.Not(static_ok(i)), z3.Not(prep(i))], key="C46/routes/unsafe-verb-without-cross-site-guard", witness_vars=[i],
                        replay=rp(lambda r: r["implemented"] and r["unsafe"] and not r["static_ok"] and not r["prepare_ok"], "prepare overridden / not a RequestHandler")))
    # the WebSocket route exists and its upgrade entry point is among the guarded rows
    ws = [k for k, r in enumerate(rows) if r["cls"] == "ClientConnection" and r["verb"] == "GET"]
    if not ws:
        raise smt.AnchorNotFound("no GET row for the WebSocket handler ClientConnection")
    qs.append(smt.Query("the WebSocket upgrade entry point (GET /updates -> open) is guarded", table + [z3.Not(z3.And(impl(ws[0]), guarded(ws[0])))],
                        key="C46/routes/websocket-open-unguarded", replay=lambda w: (True, f"{rows[ws[0]]['why']}")))
    # source table == live table (same patterns, same class names, same order), and Application passes that table
    live = [(p[:-1] if p.endswith("$") else p, c.__name__) for p, c, _ in _rules(application.default_router) if inspect.isclass(c) and c.__module__.startswith("mitmproxy")]
    same = z3.Bool("source_table_equals_live_table")
    qs.append(smt.Query("`handlers` literal in the source == routes of the live Application, passed as handlers=handlers",
                        [same == (live == src["routes"] and src["handlers_kw_is_table"]), z3.Not(same)], key="C46/routes/source-table-differs-from-live-table",
                        replay=lambda w: (True, f"source {src['routes'][:3]}... vs live {live[:3]}... handlers kw ok={src['handlers_kw_is_table']}")))
    x_src, x_live, x_over = z3.Bools("xsrf_true_in_source xsrf_true_in_live_settings xsrf_overwritten")
    qs.append(smt.Query("xsrf_cookies=True in Application.__init__ and in the live settings, never overwritten",
                        [x_src == src["xsrf_true"], x_live == (application.settings.get("xsrf_cookies") is True), x_over == src["xsrf_overwritten"],
                         z3.Not(z3.And(x_src, x_live, z3.Not(x_over)))], key="C46/xsrf/not-enabled",
                        replay=lambda w: (True, f"source True={src['xsrf_true']} live={application.settings.get('xsrf_cookies')!r} overwritten={src['xsrf_overwritten']}")))
    pw = z3.Bool("password_validator_is_webauth")
    from mitmproxy.tools.web.webaddons import WebAuth
    live_pw = getattr(application.settings.get("is_valid_password"), "__func__", None) is WebAuth.is_valid_password
    qs.append(smt.Query("settings['is_valid_password'] is WebAuth.is_valid_password", [pw == (live_pw and src["password_kw"].endswith(".is_valid_password")), z3.Not(pw)],
                        key="C46/auth/validator-not-webauth", replay=lambda w: (True, f"live={application.settings.get('is_valid_password')!r} source={src['password_kw']}")))
    return qs


_HASHES = {}


def _argon2(pw):
    import argon2

    if pw not in _HASHES:
        _HASHES[pw] = argon2.PasswordHasher(time_cost=1, memory_cost=8, parallelism=1).hash(pw)
    return _HASHES[pw]


def h_password_change(X, n_steps):
    """the real WebAuth addon over a history of `web_password` changes (plaintext / argon2 hash / unset) and login attempts:
    an attempt is accepted iff it presents the CURRENT password (argon2 verification itself is trusted)"""
    from mitmproxy.tools.web import webaddons

    class _Opts:
        web_password = ""

    class _Ctx:
        options = _Opts()

    saved = webaddons.ctx
    webaddons.ctx = _Ctx()
    saved_disable = webaddons.logging.root.manager.disable
    webaddons.logging.disable(webaddons.logging.CRITICAL)
    try:
        wa = webaddons.WebAuth()
        current = None  # None: random token nobody knows
        for step in range(n_steps):
            act = X.choose("step", ["set-plain-p1", "set-hash-p1", "set-hash-p2", "set-plain-p2", "try-p1", "try-p2", "try-other", "stop"])
            if act == "stop":
                break
            if act.startswith("set-"):
                pw = "pw-one" if act.endswith("p1") else "pw-two"
                _Opts.web_password = _argon2(pw) if "hash" in act else pw
                wa.configure({"web_password"})
                current = pw
                X.reach("changed")
            else:
                attempt = {"try-p1": "pw-one", "try-p2": "pw-two", "try-other": "nope"}[act]
                got = wa.is_valid_password(attempt)
                want = current is not None and attempt == current
                X.reach("accepted" if got else "refused")
                X.check(got == want, "C46/auth/password-history/" + ("stale-password-accepted" if got else "current-password-refused"),
                        f"after the password history leading to current={current!r}, is_valid_password({attempt!r}) = {got}")
    finally:
        webaddons.ctx = saved
        webaddons.logging.disable(saved_disable)
    X.reach("end")


def obligations(tier):
    wb = (f"{len(VERBS)} verbs (sync + async) x {len(_auth_headers(SECRET))} Authorization shapes x {len(_tokens(SECRET))} token arguments x "
          f"{len(COOKIES)} cookie states")
    wreach = ["must-refuse", "refused", "accepted/cookie", "accepted/bearer", "accepted/token"]
    wstubs = ["tornado get_signed_cookie/set_signed_cookie/get_argument/set_status -> recorders", "auth_cookie_name -> constant"]
    obs = [
        Symx("auth-wrapper", h_wrapper, bounds=wb + " x plaintext secret (ASCII)", encoded=ENCODED[:3] + ENCODED[5:], must_reach=wreach, stubs=wstubs),
        Smt("route-table", _build_structure,
            bounds="every (route, verb in SUPPORTED_METHODS) row of the live Application router; `handlers` literal and Application.__init__ keywords lifted from the current source",
            encoded=ENCODED[:1] + ENCODED[4:5]),
        Symx("cross-site-guard", h_prepare,
             bounds=f"7 tornado methods x {len(SFS_VALUES)} Sec-Fetch-Site values (incl. absent) x {len(SFS_NAMES)} header-name spellings",
             encoded=ENCODED[3:4], must_reach=["must-refuse", "allowed"]),
    ]
    n_hist = 4 if tier == "quick" else 5
    obs.append(Symx("password-history", lambda X: h_password_change(X, n_hist),
                    bounds=f"every history of <= {n_hist} steps over {{set web_password to plaintext/argon2-hash of p1/p2, attempt p1/p2/other}} through the real WebAuth.configure / is_valid_password",
                    encoded=ENCODED[:1] + ["mitmproxy.tools.web.webaddons:WebAuth.configure", "mitmproxy.tools.web.webaddons:WebAuth.is_valid_password"],
                    must_reach=["end", "changed", "accepted", "refused"], parallel_depth=2, stubs=["argon2 hashes computed with minimal cost parameters (argon2 itself trusted)"]))
    if tier != "quick":
        obs.append(Symx("auth-wrapper-non-ascii-secret", lambda X: h_wrapper(X, SECRET2), bounds=wb + " x plaintext secret (non-ASCII web_password)",
                        encoded=ENCODED[:3] + ENCODED[5:], must_reach=["must-refuse", "refused", "accepted/cookie"], stubs=wstubs))
    return obs
